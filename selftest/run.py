#!/usr/bin/env python3
"""Self-test of the checks: seeded faults (must be reported, naming the expected rule) and benign variants
(every listed check must stay silent).  Each case is one textual replacement applied to a scratch copy of
/repo/schwifty outside /repo and /verif; the copy is removed afterwards.  Never part of a verdict.

usage: selftest/run.py [-j N] [-k substring] [--list]"""
import argparse, concurrent.futures, json, os, shutil, subprocess, sys, tempfile, time

HERE = os.path.dirname(os.path.abspath(__file__))
VERIF = os.path.dirname(HERE)


def run_case(case):
    tmp = tempfile.mkdtemp(prefix="svself_")
    try:
        shutil.copytree("/repo/schwifty", os.path.join(tmp, "schwifty"))
        for ed in case["edits"]:
            p = os.path.join(tmp, ed["file"])
            s = open(p, encoding="utf-8").read()
            if s.count(ed["old"]) < 1:
                return case, "SKIP", f"pattern not found in {ed['file']} (the tree moved on; update the corpus)", []
            open(p, "w", encoding="utf-8").write(s.replace(ed["old"], ed["new"], 1))
        r0 = subprocess.run(["/venv/bin/python", "-c", "import compileall,sys; sys.exit(0 if compileall.compile_dir(sys.argv[1], quiet=2) else 1)", os.path.join(tmp, "schwifty")],
                            capture_output=True, text=True)
        if r0.returncode != 0:
            return case, "BROKEN", "variant does not compile", []
        results = []
        ok = True
        msg = ""
        for prop in case["props"]:
            r = subprocess.run([os.path.join(VERIF, "check"), prop, "--root", tmp, "--no-write", "--no-controls"], capture_output=True, text=True)
            lines = [l for l in r.stdout.splitlines() if not l.startswith("  rule")]
            results.append((prop, r.returncode))
            if case["expect"] == "violation":
                hit = r.returncode == 1 and (not case.get("rule") or any(case["rule"] in l for l in lines))
                if not hit:
                    ok = False
                    msg += f" {prop}: exit {r.returncode}, expected a VIOLATION naming {case.get('rule')!r}: {lines[:2]}"
            elif case["expect"] == "silent":
                if r.returncode != 0:
                    ok = False
                    msg += f" {prop}: exit {r.returncode} on a behaviour-preserving variant: {lines[:2]}"
            elif case["expect"] == "undecided":
                if r.returncode != 2:
                    ok = False
                    msg += f" {prop}: exit {r.returncode}, expected ANALYSIS-ERROR"
        return case, "OK" if ok else "FAIL", msg.strip(), results
    finally:
        shutil.rmtree(tmp, ignore_errors=True)


def main():
    ap = argparse.ArgumentParser()
    ap.add_argument("-j", type=int, default=min(16, os.cpu_count() or 4))
    ap.add_argument("-k", default="")
    ap.add_argument("--list", action="store_true")
    args = ap.parse_args()
    corpus = json.load(open(os.path.join(HERE, "corpus.json")))
    cases = [c for c in corpus["cases"] if args.k in c["id"] or args.k in ",".join(c["props"])]
    if args.list:
        for c in cases:
            print(c["id"], c["props"], c["expect"])
        return 0
    t0 = time.time()
    bad = 0
    with concurrent.futures.ThreadPoolExecutor(max_workers=args.j) as ex:
        for case, status, msg, results in ex.map(run_case, cases):
            print(f"{status:6} {case['id']:44} {case['expect']:9} {','.join(case['props']):14} {msg[:300]}")
            if status != "OK":
                bad += 1
    print(f"{len(cases)} cases, {bad} not as expected, {time.time() - t0:.0f}s")
    return 1 if bad else 0


if __name__ == "__main__":
    sys.exit(main())
