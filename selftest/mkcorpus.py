#!/usr/bin/env python3
"""Source of selftest/corpus.json: seeded faults (V) and behaviour-preserving variants (S)."""
import json
import os

HERE = os.path.dirname(os.path.abspath(__file__))
CASES = []
I, B, BIC, C, R, CK, G = ("schwifty/iban.py", "schwifty/bban.py", "schwifty/bic.py", "schwifty/common.py", "schwifty/registry.py",
                          "schwifty/checksum/__init__.py", "schwifty/checksum/germany.py")


def case(cid, props, file, old, new, expect="violation", rule=None, more=None):
    edits = [{"file": file, "old": old, "new": new}] + (more or [])
    CASES.append({"id": cid, "props": props.split(","), "edits": edits, "expect": expect, "rule": rule})


V, S = "violation", "silent"

# ---- C01 / C02 / C03 -----------------------------------------------------------------------------------------
case("iban-skip-format-xk", "C01", I, "        self._validate_format()\n", '        if self.country_code != "XK":\n            self._validate_format()\n', V, "incl-upper")
case("iban-or-to-and", "C01,C02", I, "if self.numeric % 97 != 1 or not checksum_algo.validate(", "if self.numeric % 97 != 1 and not checksum_algo.validate(", V, "incl-upper")
case("iban-rearrangement", "C01,C03", I, "return numerify(self.bban + self[:4])", "return numerify(self.bban + self[:2] + self[3:4] + self[2:3])", V, "rearrangement")
case("iban-postprocess-special", "C01,C02", CK, "return 98 - r", "return 98 - r if r else 1", V)
case("iban-alphabet-permuted", "C01,C03", CK, "_alphabet: str = string.digits + string.ascii_uppercase",
     '_alphabet: str = string.digits + string.ascii_uppercase.replace("O", "").replace("Q", "") + "OQ"', V, "numerify")
case("iban-drop-recompute", "C02", I, "if self.numeric % 97 != 1 or not checksum_algo.validate(\n            [self.bban, self.country_code], self.checksum_digits\n        ):",
     "if self.numeric % 97 != 1:", V, "recompute")
case("iban-modulus-99", "C03", I, "if self.numeric % 97 != 1 or not", "if self.numeric % 99 != 1 or not", V)
case("iban-length-lt-benign", "C01,C05", I, 'if self.spec["iban_length"] != len(self):', 'if self.spec["iban_length"] < len(self):', S)
case("iban-drop-dollar-benign", "C01", I, 'return rf"^{re.sub(spec_re, convert, spec)}$"', 'return rf"^{re.sub(spec_re, convert, spec)}"', S)
case("iban-class-c-dot-benign", "C01,C05", I, '"c": r"[A-Za-z0-9]"', '"c": r"[A-Za-z0-9.]"', S)
case("iban-drop-mod-benign", "C01,C02", I, "if self.numeric % 97 != 1 or not checksum_algo.validate(", "if not checksum_algo.validate(", S)
# ---- C04 -----------------------------------------------------------------------------------------------------
case("bic-match-prefix", "C04", BIC, "if not regex.fullmatch(str(self)):", "if not regex.match(str(self)):", V, "incl-upper")
case("bic-ignore-swift-flag", "C04", BIC, "regex = _bic_swift_re if enforce_swift_compliance else _bic_iso9362_re", "regex = _bic_iso9362_re", V, "incl-upper")
case("bic-init-drops-flag", "C04", BIC, "            self.validate(enforce_swift_compliance)", "            self.validate()", V)
case("bic-country-skip-xxx", "C04", BIC, "        self._validate_country_code()\n        return True",
     '        if self.branch_code != "XXX":\n            self._validate_country_code()\n        return True', V)
case("bic-country-slice-shift", "C04", BIC, "return self._get_slice(start=4, end=6)",
     "return self._get_slice(start=4, end=6) if len(self) != 11 else self._get_slice(start=5, end=7)", V, "R04-country")
case("bic-len-9-benign", "C04", BIC, "if len(self) not in (8, 11):", "if len(self) not in (8, 9, 11):", S)
case("bic-branch-23-benign", "C04", BIC, '_bic_iso9362_re = re.compile(r"[A-Z0-9]{4}[A-Z]{2}[A-Z0-9]{2}(?:[A-Z0-9]{3})?")',
     '_bic_iso9362_re = re.compile(r"[A-Z0-9]{4}[A-Z]{2}[A-Z0-9]{2}(?:[A-Z0-9]{2,3})?")', S)
# ---- C05 -----------------------------------------------------------------------------------------------------
case("isvalid-narrow-handler", "C05", I, "        except exceptions.SchwiftyException:\n            return False\n\n    @property\n    def numeric",
     "        except exceptions.InvalidStructure:\n            return False\n\n    @property\n    def numeric", V, "isvalid")
case("length-raises-checksum-class", "C05", I, 'raise exceptions.InvalidLength("Invalid IBAN length")', 'raise exceptions.InvalidChecksumDigits("Invalid IBAN length")', V, "R05-class")
case("spec-wrong-handler", "C05", I, "        except KeyError as e:\n            raise exceptions.InvalidCountryCode(", "        except IndexError as e:\n            raise exceptions.InvalidCountryCode(", V, "escape")
case("init-skips-long", "C05", I, "        if not allow_invalid:\n            self.validate(validate_bban)", "        if not allow_invalid and len(self) < 35:\n            self.validate(validate_bban)", V, "funnel")
# since numerify converts its ValueError into InvalidStructure, the old character guard is behaviour-preserving for the property
case("chars-unicode-digits-benign", "C05,C01", I, 're.fullmatch(r"[A-Z]{2}[0-9]{2}[A-Z0-9]*", self)', 're.match(r"[A-Z]{2}\\d{2}[A-Z]*", self)', S)
case("chars-unicode-digits-bare-numerify", "C05", I, 're.fullmatch(r"[A-Z]{2}[0-9]{2}[A-Z0-9]*", self)', 're.match(r"[A-Z]{2}\\d{2}[A-Z]*", self)', V, "escape",
     more=[{"file": CK, "old": "        raise InvalidStructure(f\"Invalid characters in '{value}'\") from e", "new": "        raise"}])
# ---- C06 -----------------------------------------------------------------------------------------------------
case("es-weights-swapped", "C06", "schwifty/checksum/spain.py", "weights = [1, 2, 4, 8, 5, 10, 9, 7, 3, 6]", "weights = [1, 2, 4, 8, 5, 10, 9, 7, 6, 3]", V, "R06-table")
case("fr-letter-map", "C06", "schwifty/checksum/france.py", '"S": "2",', '"S": "1",', V, "R06-table")
case("pl-ten", "C06", "schwifty/checksum/poland.py", "digit = digit if digit == 0 else 10 - digit", "digit = 10 - digit", V)
case("tn-unregistered", "C06", "schwifty/checksum/iso7064_mod97_10_variant.py", '@checksum.register("MR", "TN")', '@checksum.register("MR")', V, "R06-reg")
case("fi-never-rejects", "C06", B, "if not algo.validate(components, self.national_checksum_digits):",
     'if not algo.validate(components, self.national_checksum_digits) and self.country_code != "FI":', V, "R06-true")
case("is-wrong-digit", "C06", "schwifty/checksum/iceland.py", "return self.compute(components) == account_holder_id[8]", "return self.compute(components) == account_holder_id[9]", V, "R06-table")
case("flag-ignored", "C06", I, "        if validate_bban:\n            self.bban.validate_national_checksum()", "        if validate_bban and False:\n            self.bban.validate_national_checksum()", V, "R06-flag")
case("national-return-false", "C06", B, '            raise exceptions.InvalidBBANChecksum("Invalid national checksum")\n        return True',
     '            raise exceptions.InvalidBBANChecksum("Invalid national checksum")\n        return False', V, "R06-true")
# ---- C07 -----------------------------------------------------------------------------------------------------
case("de33-weights", "C07", G, "weights: ClassVar[list[int]] = [2, 3, 4, 5, 6]\n", "weights: ClassVar[list[int]] = [2, 3, 4, 6, 5]\n", V, "R07-table")
case("de-reconcile-gt", "C07", G, "return 0 if checksum >= 10 else checksum", "return 0 if checksum > 10 else checksum", V, "R07-digit")
case("de-summand-w9", "C07", G, "return digit * weight", "return digit * weight if weight != 9 else digit * 8", V, "summand")
case("de16-twin-remainder", "C07", G, "if remainder == 1 and account_code[index - 1] == account_code[index]:", "if remainder == 2 and account_code[index - 1] == account_code[index]:", V, "twin")
case("de08-threshold", "C07", G, "min_account_code = 60000", "min_account_code = 6000", V, "threshold")
case("de99-exempt", "C07", G, "if 396_000_000 <= int(account_code) <= 499_999_999:", 'if account_code in {"0499999999", "0396000000"}:', V, "exempt")
# ---- C08 / C09 -----------------------------------------------------------------------------------------------
case("gen-truncate-account", "C08", B, "            components[key] = common.clean(values.get(key, \"\")).zfill(range_.length)",
     "            components[key] = common.clean(values.get(key, \"\")).zfill(range_.length)[-range_.length :] if range_.length else \"\"", V)
case("gen-wrong-error-class", "C08", B, "            raise exceptions.InvalidBranchCode(", "            raise exceptions.InvalidBankCode(", V, "R08-guards")
case("gen-numerify-bare", "C08", CK, "        raise InvalidStructure(f\"Invalid characters in '{value}'\") from e", "        raise", V, "R08-errors")
case("validate-first-digit", "C09", CK, "        return self.compute(components) == expected", "        return self.compute(components)[:1] == expected[:1]", V, "R09-same")
case("accessor-one-short", "C09", B, "return self._get_slice(position.start, position.end)", "return self._get_slice(position.start, max(position.end - 1, position.start))", V, "R09-readback")
case("random-bypass-be", "C09", B, '        if "positions" not in spec:\n            return', '        if "positions" not in spec or country_code == "BE":\n            return', V, "R09-funnel")
case("pl-weights-consistent", "C09", "schwifty/checksum/poland.py", "weights = [3, 9, 7, 1, 3, 9, 7]", "weights = [3, 9, 7, 1, 3, 9, 1]", S)
case("gen-key-format", "C06", B, 'algorithms.get(f"{country_code}:default")', 'algorithms.get(f"{country_code}-default")', V, "R06-dispatch")
case("reader-field-renamed", "C07", B, 'bank.get("checksum_algo", "default")', 'bank.get("checksum_algorithm", "default")', V, "R07-dispatch")
case("iban-lookahead-alias99", "C02", I, 're.fullmatch(r"[A-Z]{2}[0-9]{2}[A-Z0-9]*", self)', 're.fullmatch(r"[A-Z]{2}(?!0[01])[0-9]{2}[A-Z0-9]*", self)', V, "recompute",
     more=[{"file": I, "old": "if self.numeric % 97 != 1 or not checksum_algo.validate(\n            [self.bban, self.country_code], self.checksum_digits\n        ):", "new": "if self.numeric % 97 != 1:"}])
case("iban-lookahead-benign", "C01,C02", I, 're.fullmatch(r"[A-Z]{2}[0-9]{2}[A-Z0-9]*", self)', 're.fullmatch(r"(?=[A-Z])[A-Z]{2}[0-9]{2}[A-Z0-9]*", self)', S)
case("bic-historic-countries", "C04", BIC, "        return countries.get(alpha_2=self.country_code)", "        return countries.get(alpha_2=self.country_code) or historic_countries.get(alpha_2=self.country_code)", V, "R04-country",
     more=[{"file": BIC, "old": "from pycountry import countries  # type: ignore", "new": "from pycountry import countries  # type: ignore\nfrom pycountry import historic_countries  # type: ignore"}])
case("bic-not-country-benign", "C04,C05", BIC, "        if self.country is None:", "        if not self.country:", S)
case("nfkc-normalise", "C10", C, "        return super().__new__(cls, clean(value))", '        return super().__new__(cls, clean(unicodedata.normalize("NFKC", value)))', V, "R10-norm",
     more=[{"file": C, "old": "import copy\n", "new": "import copy\nimport unicodedata\n"}])
case("sk-branch-range-short", "C06,C17", "schwifty/iban_registry/overwrite.json", '  "SK": {\n    "positions": {\n      "branch_code": [\n        4,', '  "SK": {\n    "positions": {\n      "branch_code": [\n        5,', V)
case("bank-guard-wrong-bound", "C08", B, "        if len(components[Component.BANK_CODE]) > bank_code_length:", "        if len(components[Component.BANK_CODE]) > bank_code_length + branch_code_length:", V, "R08-guards")
case("v2-suffix-2", "C18", R, 'if entry.stem.endswith("v2"):', 'if entry.stem.endswith("2"):', V, "R18-get")
case("allow-invalid-is-false", "C05", I, "        if not allow_invalid:", "        if allow_invalid is False:", V, "funnel")
# ---- C10 / C11 -----------------------------------------------------------------------------------------------
case("clean-ascii-ws", "C10,C01,C04", C, '_clean_regex = re.compile(r"\\s+")', '_clean_regex = re.compile(r"[ \\t\\n]+")', V, "whitespace")
case("clean-re-ascii", "C10,C01,C04", C, '_clean_regex = re.compile(r"\\s+")', '_clean_regex = re.compile(r"\\s+", re.ASCII)', V, "whitespace")
case("clean-dash", "C10,C01,C04", C, '_clean_regex = re.compile(r"\\s+")', '_clean_regex = re.compile(r"[\\s-]+")', V, "payload")
case("clean-count", "C10,C01,C04", C, 'return _clean_regex.sub("", s).upper()', 'return _clean_regex.sub("", s, 8).upper()', V, "shape")
case("clean-no-upper", "C10,C01,C04", C, 'return _clean_regex.sub("", s).upper()', 'return _clean_regex.sub("", s)', V, "shape")
case("clean-strip-benign", "C10,C01,C04", C, 'return _clean_regex.sub("", s).upper()', 'return _clean_regex.sub("", s.strip()).upper()', S)
case("formatted-off-by-one", "C10", I, 'for i in range(0, len(self), 4))', 'for i in range(0, len(self) - 1, 4))', V, "R10-format")
case("init-reads-raw", "C10,C01,C02,C03", I, "        self.bban = BBAN(self.country_code, self._get_slice(start=4))", "        self.bban = BBAN(iban[:2], self._get_slice(start=4))", V, "-norm")
case("proxy-swapped", "C11", I, "        return self.bban.branch_code\n\n    @property\n    def account_code", "        return self.bban.bank_code\n\n    @property\n    def account_code", V, "R11-proxy")
case("slice-end-strict", "C11", C, "if start < len(self) and (end is None or end <= len(self)):", "if start < len(self) and (end is None or end < len(self)):", V, "R11-tile")
case("bic-location-3", "C11", BIC, "return self._get_slice(start=6, end=8)", "return self._get_slice(start=6, end=9)", V, "R11-tile")
case("bban-account-id-type", "C11", B, "return self._get_component(Component.ACCOUNT_ID)", "return self._get_component(Component.ACCOUNT_TYPE)", V, "R11-proxy")
# ---- C12 -----------------------------------------------------------------------------------------------------
case("cand-not-reversed", "C12", BIC, 'key=itemgetter("primary"), reverse=True', 'key=itemgetter("primary")', V, "R12-cand")
case("select-gt-2", "C12", BIC, "            if len(candidates) > 1:", "            if len(candidates) > 2:", V, "R12-select")
case("index-not-accumulating", "C12", BIC, '    key=("country_code", "bank_code"),\n    accumulate=True,', '    key=("country_code", "bank_code"),\n    accumulate=False,', V, "R12-index")
case("bank-last-entry", "C12", B, "        return bank_entry and bank_entry[0]", "        return bank_entry and bank_entry[-1]", V, "R12-iban")
case("reverse-primary-only", "C12", BIC, "return sorted({entry[key] for entry in entries})", 'return sorted({entry[key] for entry in entries if entry["primary"]})', V, "R12-inverse")
# ---- C13 -----------------------------------------------------------------------------------------------------
case("rstr-unseeded", "C13", B, "rstr = Rstr(random)", "rstr = Rstr()", V, "foreign-draw")
case("random-set-order", "C13", B, "country_code = random.choice(list(banks_by_country.keys()))", "country_code = random.choice(list(set(banks_by_country.keys())))", V, "set-iteration")
case("random-unsorted-glob", "C13,C18", R, 'for entry in sorted(directory.glob("*.json")):', 'for entry in directory.glob("*.json"):', V)
case("random-allow-invalid", "C13", I, "        return cls.from_bban(bban.country_code, bban)", "        return cls.from_bban(bban.country_code, bban, allow_invalid=True)", V, "R13-valid")
case("random-pinned-truncated", "C13", B, "                if key not in values:\n                    components[key] = value[: ranges[key].length]",
     "                components[key] = value[: ranges[key].length]", V, "R13-pinned")
case("random-negated-class", "C13", I, '"c": r"[A-Za-z0-9]"', '"c": r"[^\\W_]"', V, "R13-regex")
case("random-nonconforming-returned", "C13", B, '                if result.isascii() and spec["regex"].match(result):\n                    return result', "                return result", V, "nonconforming")
case("random-unicode-digit-pin-returned", "C13", B, '                if result.isascii() and spec["regex"].match(result):', '                if spec["regex"].match(result):', V, "nonconforming")
case("random-fallback-ternary", "C13", B, "        if random is None:\n            random = Random()  # noqa: S311", "        random = Random() if random is None else random  # noqa: S311", S)
case("random-generator-not-passed", "C13", I, "bban = BBAN.random(country_code, random=random, use_registry=use_registry, **values)", "bban = BBAN.random(country_code, use_registry=use_registry, **values)", V, "foreign-draw")
case("random-while-retry", "C13,C09", B, "        for _ in range(100):\n            bban = rstr.xeger", "        attempts = 0\n        while attempts < 100:\n            attempts += 1\n            bban = rstr.xeger", S,
     more=[{"file": B, "old": "            except exceptions.SchwiftyException:\n                pass\n        else:\n            raise exceptions.GenerateRandomOverflowError", "new": "            except exceptions.SchwiftyException:\n                pass\n        raise exceptions.GenerateRandomOverflowError"}])
case("index-build-in-helper", "C12,C14,C15,C17", B, 'registry.build_index("bank", "country", key="country_code", accumulate=True)',
     'def _build_country_index() -> None:\n    registry.build_index("bank", "country", key="country_code", accumulate=True)\n\n\n_build_country_index()', S)
case("index-build-dropped", "C12,C14", B, 'registry.build_index("bank", "country", key="country_code", accumulate=True)', 'pass', V)
# ---- C14 / C15 -----------------------------------------------------------------------------------------------
case("numerify-cache", "C14,C15", CK, "def numerify(value: str) -> int:\n    try:",
     "_cache: dict = {}\n\n\ndef numerify(value: str) -> int:\n    if value in _cache:\n        return _cache[value]\n    _cache[value] = 0\n    try:", V, "_cache")
case("numerify-lru-cache-benign", "C14,C15,C01", CK, "def numerify(value: str) -> int:", "@functools.lru_cache(maxsize=4096)\ndef numerify(value: str) -> int:", S,
     more=[{"file": CK, "old": "import abc\n", "new": "import abc\nimport functools\n"}])
case("ctor-helper-store-benign", "C15,C14", I, "        self.bban = BBAN(self.country_code, self._get_slice(start=4))", "        self._set_bban()", S,
     more=[{"file": I, "old": "    def validate(self, validate_bban: bool = False) -> bool:", "new": "    def _set_bban(self) -> None:\n        self.bban = BBAN(self.country_code, self._get_slice(start=4))\n\n    def validate(self, validate_bban: bool = False) -> bool:"}])
case("bank-sorts-shared", "C14,C15", B, "        bank_entry = bank_registry.get((self.country_code, key))",
     '        bank_entry = bank_registry.get((self.country_code, key))\n        if bank_entry:\n            bank_entry.sort(key=lambda e: e["primary"], reverse=True)', V)
case("spec-setdefault", "C14,C15", I, "            return spec[self.country_code]\n        except KeyError as e:",
     '            result = spec[self.country_code]\n            result.setdefault("positions", {})\n            return result\n        except KeyError as e:', V)
case("lru-cache-spec", "C15", B, "    @property\n    def spec(self) -> dict[str, Any]:", "    @property\n    @functools.lru_cache(maxsize=None)\n    def spec(self) -> dict[str, Any]:", V, "R15-cache",
     more=[{"file": B, "old": "from dataclasses import dataclass\n", "new": "import functools\nfrom dataclasses import dataclass\n"}])
# ---- C16 -----------------------------------------------------------------------------------------------------
case("hash-lower", "C16", C, "return hash(str(self))", "return hash(str(self).lower())", V, "R16-eqhash")
case("getnewargs-swapped", "C16", B, "return self.country_code, str(self)", "return str(self), self.country_code", V, "R16-newargs")
case("deepcopy-drops-state", "C16", C, "        result.__dict__.update(copy.deepcopy(self.__dict__, memo))\n", "", V, "R16-deepcopy")
case("bic-own-lt", "C16", BIC, "    def _validate_length(self) -> None:", "    def __lt__(self, other):\n        return len(self) < len(other)\n\n    def _validate_length(self) -> None:", V, "R16-eqhash")
# ---- C18 -----------------------------------------------------------------------------------------------------
case("merge-left-dict-wins", "C18", R, "            merged[key] = right_value", "            merged[key] = right_value if not isinstance(left_value, dict) else left_value", V, "R18-merge")
case("merge-operands-swapped", "C18", R, "data = merge_dicts(data, chunk)", "data = merge_dicts(chunk, data)", V, "R18-get")
case("merge-shallow-update", "C18", R, "data = merge_dicts(data, chunk)", "data.update(chunk)", V, "R18-get")
case("index-keeps-empty", "C18", R, "if index_key and all(index_key):", "if index_key:", V, "R18-index")
case("merge-mutates-left", "C18", R, "            merged[key] = merge_dicts(left_value, right_value)", "            left_value.update(right_value)\n            merged[key] = left_value", V, "R18")
case("v2-primary-default", "C18", R, 'entry.setdefault("primary", False)', 'entry.setdefault("primary", True)', V, "R18-get")

# ---- round 5 rules -------------------------------------------------------------------------------------------
case("raw-length-guard", "C10,C01,C04", C, "        return super().__new__(cls, clean(value))",
     "        if len(value) > 64:\n            raise ValueError(\"too long\")\n        return super().__new__(cls, clean(value))", V, "norm")
case("clean-length-guard-benign", "C10,C01", C, "        return super().__new__(cls, clean(value))",
     "        value = clean(value)\n        return super().__new__(cls, value)", S)
case("format-cache-country-blind", "C01,C02,C03", I, "    def _validate_format(self) -> None:", "    @functools.lru_cache(maxsize=None)\n    def _validate_format(self) -> None:", V, "stateless",
     more=[{"file": I, "old": "from __future__ import annotations\n", "new": "from __future__ import annotations\n\nimport functools\n"}])
case("national-cache-country-blind", "C06,C05,C09", B, "    def validate_national_checksum(self) -> bool:", "    @functools.lru_cache(maxsize=None)\n    def validate_national_checksum(self) -> bool:", V, "stateless",
     more=[{"file": B, "old": "from dataclasses import dataclass\n", "new": "import functools\nfrom dataclasses import dataclass\n"}])
case("national-cache-not-c01", "C01,C02,C03,C04", B, "    def validate_national_checksum(self) -> bool:", "    @functools.lru_cache(maxsize=None)\n    def validate_national_checksum(self) -> bool:", S,
     more=[{"file": B, "old": "from dataclasses import dataclass\n", "new": "import functools\nfrom dataclasses import dataclass\n"}])
case("from-bban-table-digits", "C02", I, "        checksum_algo = ISO7064_mod97_10()\n        return cls(",
     '        checksum_algo = ISO7064_mod97_10()\n        if country_code == "PT":\n            return cls("PT50" + bban, allow_invalid=allow_invalid, validate_bban=validate_bban)\n        return cls(', V, "R02-agree")
case("cz-accepts-undefined", "C17", "schwifty/checksum/czech_republic.py", "        Component.BRANCH_CODE,\n        Component.ACCOUNT_CODE,", "        Component.ACCOUNT_TYPE,\n        Component.ACCOUNT_CODE,", V, "R17-algo")
case("nochecksum-returns-zero", "C09", B, "    if algo is None:\n        return \"\"", "    if algo is None:\n        return \"0\"", V, "R09-converse")
case("module-object-lazy-flag", "C14", CK, "algorithms: dict[str, Algorithm] = {}",
     "class _Table(dict):  # type: ignore[type-arg]\n    _ready = False\n\n    def touch(self) -> None:\n        self._ready = True\n\n\nalgorithms: dict[str, Algorithm] = _Table()", V, "module-objects")

json.dump({"cases": CASES}, open(os.path.join(HERE, "corpus.json"), "w"), indent=1)
print(len(CASES), "cases")
