"""Facts extracted once per run and shared by the rules (all from source text and bundled data)."""
from __future__ import annotations

import ast

from .interp import CannotEvaluate, Interp, Raised
from .srcmodel import AnalysisError, Class, Func, Module, dotted
from .values import ClsRef, FuncRef, Obj, RegexVal


class Registration:
    def __init__(self, key, prefix, name, cls, node, module):
        self.key = key
        self.prefix = prefix
        self.name = name
        self.cls = cls
        self.node = node
        self.module = module

    @property
    def where(self):
        return f"{self.module.relpath}:{self.node.lineno}"


class Facts:
    def __init__(self, ctx):
        self.ctx = ctx
        self.program = ctx.program
        self._regs = None
        self._components = None
        self._iban_table = None

    # ------------------------------------------------------------------ evaluator factory
    def interp(self, theory=None, algorithms=True, **kw):
        it = Interp(self.program, registry=self.ctx.registry, theory=theory, **kw)
        from .intrinsics import install
        install(it, self)
        it.persistent_ids = self.__dict__.setdefault("_persistent_ids", set())
        if algorithms and not getattr(self, "_building_regs", False):
            # the process-wide table filled at import: one (fresh, per lookup) instance per registered key
            from .ops import LazyInstance
            table = {key: LazyInstance(r.cls) for key, r in self.algorithm_table().items()}
            it._modconst_cache[("schwifty.checksum", "algorithms")] = table
        return it

    # ------------------------------------------------------------------ the bank list as the tree's own loader composes it
    def tree_banks(self):
        """registry.get('bank') of the tree evaluated on the real bundled files (virtual directory filled with their parsed contents).
        Equal to the data model's list when C18's R18-real holds; the rules about national validation of *listed* banks use this
        list, so that whatever registry.py does to the entries on the way in (defaulting, normalising, filtering) is what they see."""
        if getattr(self, "_tree_banks", None) is None:
            import json, os
            from .interp import CannotEvaluate, PathLimit
            reg = self.ctx.registry
            d = os.path.join(reg.pkgdir, "bank_registry")
            files = []
            for fn in sorted(os.listdir(d)):
                if fn.endswith(".json"):
                    with open(os.path.join(d, fn), encoding="utf-8") as fp:
                        files.append((fn, json.load(fp)))
            gf = self.program.find("schwifty.registry.get")
            if gf is None:
                raise AnalysisError("anchor vanished: schwifty.registry.get")
            it = Interp(self.program)
            it.max_steps = 50_000_000
            it.vfs = {("path", "schwifty", "bank_registry"): files}
            try:
                outs = [o for o in it.explore(lambda: it.call_func(gf, ["bank"], {}, None), max_paths=50) if o.kind != "infeasible"]
            except (CannotEvaluate, PathLimit) as e:
                raise AnalysisError(f"cannot evaluate registry.get('bank') on the bundled files: {e}")
            if len(outs) != 1 or outs[0].kind != "return" or not isinstance(outs[0].value, list):
                raise AnalysisError("registry.get('bank') on the bundled files does not return a list")
            self._tree_banks = outs[0].value
        return self._tree_banks

    # ------------------------------------------------------------------ Component enum
    def components(self):
        """{member name: value} of schwifty.domain.Component, in declaration order."""
        if self._components is None:
            cls = self.program.get("schwifty.domain.Component")
            if not isinstance(cls, Class):
                raise AnalysisError("anchor vanished: schwifty.domain.Component is not a class")
            it = Interp(self.program)
            out = {}
            for k, nm, st in cls.body_order:
                if k == "attr" and not nm.startswith("_"):
                    v = it.class_attr(cls, nm)
                    if not isinstance(v, str):
                        raise AnalysisError(f"Component.{nm} is not a string constant")
                    out[nm] = v
            self._components = out
        return self._components

    # ------------------------------------------------------------------ algorithm registrations
    def registrations(self):
        """All (key -> instance) registrations performed by decorators in schwifty.checksum.*,
        obtained by evaluating each decorator application with the abstract evaluator."""
        if self._regs is not None:
            return self._regs
        prog = self.program
        pkg = prog.module("schwifty.checksum")
        if "algorithms" not in pkg.defs or "register" not in pkg.defs:
            raise AnalysisError("anchor vanished: schwifty.checksum.algorithms / register")
        self._building_regs = True
        try:
            it = self.interp(algorithms=False)
        finally:
            self._building_regs = False
        table = it.module_const(pkg, "algorithms")
        if not isinstance(table, dict):
            raise AnalysisError("schwifty.checksum.algorithms is not a dict literal")
        regs = []
        watch_keys = []

        def watch(ev):
            if ev["kind"] == "store_item" and ev["obj"] is table:
                watch_keys.append((ev["key"], ev["value"]))

        it.watch = watch
        for mname in sorted(prog.modules):
            if not mname.startswith("schwifty.checksum."):
                continue
            mod = prog.modules[mname]
            for d in list(mod.defs.values()):
                if not isinstance(d, Class):
                    continue
                for cls in _walk_classes(d):
                    for dec in cls.decorators:
                        dn = dotted(dec) or dotted(getattr(dec, "func", None)) or ""
                        if dn.split(".")[-1] in ("dataclass", "total_ordering"):
                            continue
                        del watch_keys[:]
                        try:
                            from .interp import Frame
                            fr = Frame(None, mod, {})
                            it.cur_frame = fr
                            it.prefix, it.trace = [], []
                            decv = it.eval(dec, fr)
                            it.call(decv, [ClsRef(cls)], {}, dec)
                        except (CannotEvaluate, Raised) as e:
                            raise AnalysisError(f"{mod.relpath}:{dec.lineno}: cannot evaluate decorator "
                                                f"{ast.unparse(dec)} on {cls.short}: {e}")
                        for key, inst in watch_keys:
                            if not isinstance(key, str) or ":" not in key:
                                raise AnalysisError(f"{mod.relpath}:{dec.lineno}: registration key {key!r} is not '<prefix>:<name>'")
                            prefix, _, name = key.partition(":")
                            c = inst.cls if isinstance(inst, Obj) else None
                            if c is None:
                                raise AnalysisError(f"registration of a non-instance under {key!r}")
                            regs.append(Registration(key, prefix, name, c, dec, mod))
        it.watch = None
        self._regs = regs
        self._reg_interp = it
        return regs

    def algorithm_table(self):
        """key -> Registration (last one wins, as in the dict); duplicates are reported by R06-reg."""
        out = {}
        for r in self.registrations():
            out[r.key] = r
        return out

    # ------------------------------------------------------------------ effective IBAN table (with regex)
    def iban_table(self):
        """Country table after import-time manipulation (regex added by add_bban_regex)."""
        if self._iban_table is None:
            from .intrinsics import build_iban_table
            self._iban_table = build_iban_table(self)
        return self._iban_table


def _walk_classes(c):
    yield c
    for n in c.nested.values():
        yield from _walk_classes(n)
