"""Path conditions over the symbolic text under validation, kept as a regular language.

Conditions that are regular in the text (regex matches on it or on a slice, length comparisons,
equality of a slice with a constant, membership of a slice in a finite key set) are intersected into
the path's DFA; everything else is an *opaque atom* with a boolean valuation (structural key), which
the rules interpret afterwards (mod-97 check, recomputed digits, pycountry lookup, national check).
"""
from __future__ import annotations

from . import relang
from .interp import Infeasible
from .relang import DFA, Regex
from .srcmodel import AnalysisError
from .values import RegexVal, SStr, Sym


class Untranslatable(Exception):
    pass


class StringTheory:
    def __init__(self, alpha, universe=None):
        self.alpha = alpha
        self.universe = universe or DFA.any_string(alpha)   # language of all possible texts
        self._tr_cache = {}
        self._and_cache = {}
        self._rx_cache = {}
        self.keysets = {}
        self._fk_cache = {}
        self._dec_cache = {}
        self._keep = []          # keeps DFAs alive so that id()-keyed cache entries stay valid
        self.safe_raws = {}      # function qualname -> (raw class of accepted characters, empty string accepted?)
        self.reset()

    # ------------------------------------------------------------------ path state
    def reset(self):
        self.lang = self.universe
        self.atoms = {}
        self.eqfacts = {}

    def snapshot(self):
        return {"lang": self.lang, "atoms": dict(self.atoms), "eq": dict(self.eqfacts)}

    def register_keyset(self, kid, keys):
        self.keysets[kid] = tuple(keys)

    def known_value(self, key):
        if isinstance(key, SStr):
            return self.eqfacts.get(key.term)
        return None

    def feasible_keys(self, key, keys):
        """(list of keys the slice can equal on this path, can it be none of them?) or None."""
        if not isinstance(key, SStr) or key.term[0] != "slice" or key.term[1][0] != "S":
            return None
        _, _, a, b = key.term
        if b is None or a is None or a < 0 or b <= a:
            return None
        ck = (id(self.lang), key.term, tuple(keys))
        r = self._fk_cache.get(ck)
        if r is None:
            self._keep.append(self.lang)
            proj = self.lang.slice_from(a, b)
            A = self.alpha
            feas = []
            for k in keys:
                if len(k) == b - a and proj.accepts_word([A.atom_of_char(c) for c in k]):
                    feas.append(k)
            r = feas
            self._fk_cache[ck] = r
        return list(r)

    # ------------------------------------------------------------------ interface for the evaluator
    def decide(self, cond):
        neg = False
        while isinstance(cond, Sym) and cond.kind == "not":
            cond = cond.args[0]
            neg = not neg
        try:
            d = self.translate(cond)
        except Untranslatable:
            v = self.atoms.get(cond)
            if v is None:
                return None
            return v != neg
        ck = (id(self.lang), cond)
        res = self._dec_cache.get(ck, 0)
        if res == 0:
            self._keep.append(self.lang)
            if not self.lang.intersects(d):
                res = False
            elif self.lang.included_in(d):
                res = True
            else:
                res = None
            self._dec_cache[ck] = res
        if res is None:
            return None
        return res != neg

    def assume(self, cond, value):
        while isinstance(cond, Sym) and cond.kind == "not":
            cond = cond.args[0]
            value = not value
        try:
            d = self.translate(cond)
        except Untranslatable:
            old = self.atoms.get(cond)
            if old is not None and old != value:
                raise Infeasible()
            self.atoms[cond] = value
            return
        if value:
            new = self._and(self.lang, d, cond)
        else:
            new = self._minus(self.lang, d, cond)
        if new.is_empty():
            raise Infeasible()
        self.lang = new
        if value and cond.kind == "cmp" and cond.args[0] == "Eq":
            a, b = cond.args[1], cond.args[2]
            if isinstance(a, SStr) and isinstance(b, str):
                self.eqfacts[a.term] = str(b)
            elif isinstance(b, SStr) and isinstance(a, str):
                self.eqfacts[b.term] = str(a)

    def _and(self, cur, d, cond):
        k = (id(cur), "and", cond)
        r = self._and_cache.get(k)
        if r is None:
            r = cur.intersect(d)
            self._and_cache[k] = r
            self._keep.append(cur)
        return r

    def _minus(self, cur, d, cond):
        k = (id(cur), "minus", cond)
        r = self._and_cache.get(k)
        if r is None:
            r = cur.minus(d)
            self._and_cache[k] = r
            self._keep.append(cur)
        return r

    # ------------------------------------------------------------------ translation
    def translate(self, cond):
        r = self._tr_cache.get(cond)
        if r is None:
            try:
                r = self._translate(cond)
            except Untranslatable:
                r = False
            self._tr_cache[cond] = r
        if r is False:
            raise Untranslatable()
        return r

    def regex_lang(self, rx, mode):
        k = (rx, mode)
        r = self._rx_cache.get(k)
        if r is None:
            r = Regex(rx.pattern, rx.flags).language(self.alpha, mode)
            self._rx_cache[k] = r
        return r

    def _translate(self, c):
        A = self.alpha
        if isinstance(c, SStr):
            return self.lift(c.term, DFA.length_at_least(A, 1))
        if not isinstance(c, Sym):
            raise Untranslatable()
        k = c.kind
        if k == "nonempty":
            return self._translate(c.args[0])
        if k == "rematch":
            mode, rx, s = c.args
            if not isinstance(s, SStr):
                raise Untranslatable()
            return self.lift(s.term, self.regex_lang(rx, mode))
        if k == "startswith":
            s, p = c.args
            if not isinstance(s, SStr) or not isinstance(p, str):
                raise Untranslatable()
            return self.lift(s.term, DFA.literal(A, p).concat(DFA.any_string(A)))
        if k == "endswith":
            s, p = c.args
            if not isinstance(s, SStr) or not isinstance(p, str):
                raise Untranslatable()
            return self.lift(s.term, DFA.any_string(A).concat(DFA.literal(A, p)))
        if k == "in":
            item, cont = c.args
            return self._membership(item, cont)
        if k == "strsafe":
            qual, s = c.args
            if qual not in self.safe_raws or not isinstance(s, SStr):
                raise Untranslatable()
            raw, empty_ok = self.safe_raws[qual]
            safe = DFA.chars_in(A, A.atoms_of(raw))
            parts = s.term[1:] if s.term[0] == "concat" else (s.term,)
            lang = DFA.any_string(A)
            allempty = DFA.any_string(A)
            for t in parts:
                lang = lang.intersect(self.lift(t, safe))
                allempty = allempty.intersect(self.lift(t, DFA.epsilon(A)))
            if not empty_ok:
                lang = lang.minus(allempty)
            return lang
        if k == "cmp":
            op, a, b = c.args
            return self._cmp(op, a, b)
        raise Untranslatable()

    def _membership(self, item, cont):
        A = self.alpha
        if isinstance(cont, tuple) and cont and cont[0] == "keys":
            vals = self.keysets.get(cont[1])
            if vals is None:
                raise Untranslatable()
        elif isinstance(cont, tuple) and cont and cont[0] in ("list", "dict"):
            vals = cont[1:] if cont[0] == "list" else None
            if vals is None:
                raise Untranslatable()
        elif isinstance(cont, (tuple, frozenset)):
            vals = tuple(cont)
        elif isinstance(cont, str) and isinstance(item, SStr):
            raise Untranslatable()
        else:
            raise Untranslatable()
        if isinstance(item, Sym) and item.kind == "len" and isinstance(item.args[0], SStr):
            if not all(isinstance(v, int) for v in vals):
                raise Untranslatable()
            return self.lift(item.args[0].term, DFA.length_in(A, {v for v in vals if v >= 0}))
        if isinstance(item, SStr):
            if not all(isinstance(v, str) for v in vals):
                raise Untranslatable()
            if len(vals) > 16:
                return self.lift(item.term, DFA.from_words(A, vals))
            lang = DFA.empty(A)
            for v in vals:
                lang = lang.union(DFA.literal(A, v))
            return self.lift(item.term, lang)
        raise Untranslatable()

    def _cmp(self, op, a, b):
        A = self.alpha
        flip = {"Lt": "Gt", "Gt": "Lt", "LtE": "GtE", "GtE": "LtE", "Eq": "Eq", "NotEq": "NotEq"}
        if isinstance(b, (Sym, SStr)) and not isinstance(a, (Sym, SStr)):
            if op not in flip:
                raise Untranslatable()
            a, b, op = b, a, flip[op]
        if isinstance(a, Sym) and a.kind == "len" and isinstance(a.args[0], SStr) and isinstance(b, int) and not isinstance(b, bool):
            n = b
            if op == "Eq":
                lang = DFA.length_in(A, {n} if n >= 0 else set())
            elif op == "NotEq":
                lang = DFA.length_in(A, {n} if n >= 0 else set()).complement()
            elif op == "Lt":
                lang = DFA.length_in(A, set(range(0, max(n, 0))))
            elif op == "LtE":
                lang = DFA.length_in(A, set(range(0, max(n + 1, 0))))
            elif op == "Gt":
                lang = DFA.length_at_least(A, max(n + 1, 0))
            elif op == "GtE":
                lang = DFA.length_at_least(A, max(n, 0))
            else:
                raise Untranslatable()
            return self.lift(a.args[0].term, lang)
        if isinstance(a, SStr) and isinstance(b, str) and op in ("Eq", "NotEq"):
            lang = DFA.literal(A, str(b))
            if op == "NotEq":
                lang = lang.complement()
            return self.lift(a.term, lang)
        raise Untranslatable()

    # ------------------------------------------------------------------ lifting through slices
    def lift(self, term, lang):
        """Language of root texts s for which term(s) is in ``lang``."""
        A = self.alpha
        if term[0] == "S":
            return lang
        if term[0] == "const":
            w = lang.intersect(DFA.literal(A, term[1]))
            return DFA.any_string(A) if not w.is_empty() else DFA.empty(A)
        if term[0] == "slice":
            _, inner, a, b = term
            if a is None:
                a = 0
            if a < 0 or (b is not None and b < 0):
                raise Untranslatable()
            anystr = DFA.any_string(A)
            pre = DFA.length_in(A, {a})
            has_empty = lang.start in lang.accept
            short = DFA.length_in(A, set(range(0, a))) if (has_empty and a > 0) else DFA.empty(A)
            if b is None:
                x = pre.concat(lang).union(short)
            elif b <= a:
                x = anystr if has_empty else DFA.empty(A)
            else:
                w = b - a
                full = lang.intersect(DFA.length_in(A, {w}))
                partial = lang.intersect(DFA.length_in(A, set(range(0, w))))
                x = pre.concat(full).concat(anystr).union(pre.concat(partial)).union(short)
            return self.lift(inner, x)
        raise Untranslatable()


def base_alphabet(extra_raws=()):
    raws = [relang.RAW_ASCII_DIGIT, relang.RAW_ASCII_UPPER, relang.RAW_ASCII_LOWER, relang.RAW_SPACE_UNI, relang.RAW_DIGIT_UNI,
            relang.RAW_ASCII_ALNUM_UPPER, ("set", False, (("lit", 10),))]
    for ch in "ABCDEFGHIJKLMNOPQRSTUVWXYZ":
        raws.append(relang.raw_lit(ch))
    raws.extend(extra_raws)
    return relang.Alphabet(raws)


def clean_universe(alpha):
    """All texts that can come out of ``clean``: no whitespace character, no ASCII lower-case letter."""
    bad = alpha.atoms_of(relang.RAW_SPACE_UNI) | alpha.atoms_of(relang.RAW_ASCII_LOWER)
    return DFA.chars_in(alpha, alpha.all_atoms - bad)
