"""Decision model of the IBAN / BIC validators: paths, opaque atoms, specification languages."""
from __future__ import annotations

import itertools

from . import relang
from .algo_eval import Evaluator, is_library_exc
from .interp import Raised
from .relang import DFA
from .srcmodel import AnalysisError, Func
from .theory import Untranslatable
from .validators import S, ValidatorAnalysis, VPath
from .values import (ASCII_DIGITS, ASCII_UPPER, CharSet, ExcVal, ND, OT, Obj, SStr, Sym, TOP_CLEAN)

S_TERM = S.term


# ------------------------------------------------------------------------------------------------ atoms

def _find(sym, pred):
    if pred(sym):
        return sym
    if isinstance(sym, Sym):
        for a in sym.args:
            r = _find(a, pred)
            if r is not None:
                return r
    if isinstance(sym, tuple):
        for a in sym:
            r = _find(a, pred)
            if r is not None:
                return r
    return None


def classify(atom):
    """(kind, detail) of an opaque atom: 'mod' | 'recomp' | 'nat' | 'known' | 'other'."""
    if not isinstance(atom, Sym):
        return "other", {}
    if atom.kind == "nat_ok":
        return "nat", {}
    if atom.kind == "pycountry":
        # truthiness of the lookup result (a Country object or None): `if not self.country`
        return "known", {"op": "IsNot", "key": atom.args[0]}
    if atom.kind == "cmp":
        op, a, b = atom.args
        if op in ("Is", "IsNot") and (a is None or b is None):
            other = b if a is None else a
            if isinstance(other, Sym) and other.kind == "pycountry":
                return "known", {"op": op, "key": other.args[0]}
        if op in ("Eq", "NotEq"):
            for x, y in ((a, b), (b, a)):
                if isinstance(x, Sym) and x.kind == "binop" and x.args[0] == "Mod" and isinstance(y, int) and not isinstance(y, bool):
                    return "mod", {"op": op, "value": x.args[1], "modulus": x.args[2], "residue": y}
            for x, y in ((a, b), (b, a)):
                # a string function of the package that returns the remainder itself (the number is never built): `mod97(text) != 1`
                if _is_text_call(x) and isinstance(y, int) and not isinstance(y, bool) and _FACTS[0] is not None:
                    mod = residue_modulus(x.args[0])
                    if mod:
                        return "mod", {"op": op, "value": x, "modulus": mod, "residue": y}
            for x, y in ((a, b), (b, a)):
                if isinstance(y, SStr) and isinstance(x, Sym) and _find(x, lambda s: isinstance(s, Sym) and s.kind == "format"):
                    return "recomp", {"op": op, "computed": x, "given": y}
    return "other", {}


def holds(kind, detail, value):
    """Does the valuation ``value`` of the atom mean the semantic predicate holds?"""
    if kind in ("mod", "recomp"):
        return value == (detail["op"] == "Eq")
    if kind == "known":
        # atom is `country is None` (Is) / `country is not None` (IsNot)
        return value == (detail["op"] == "IsNot")
    if kind == "nat":
        return value
    return value


# The letter expansion ("numerify") appears in conditions as an opaque call of whichever per-character function could not be followed on
# symbolic text - today schwifty.checksum.numerify, after a refactoring possibly a helper of it that returns the digit string.  Rules
# never go by its name: any opaque call with one symbolic-text argument is an expansion call; what it computes is established by
# evaluating that function on concrete strings (rule_numerify), and whether it returns the number or its digit string by `call_kind`.
_FACTS = [None]
_KINDS = {}


def set_facts(facts):
    _FACTS[0] = facts
    _KINDS.clear()
    _RESIDUE.clear()


def _is_text_call(s):
    if not (isinstance(s, Sym) and s.kind == "call" and isinstance(s.args[1], tuple) and len(s.args[1]) == 1):
        return False
    a = s.args[1][0]
    if isinstance(a, tuple) and a and a[0] == "obj":
        a = a[2]
    return isinstance(a, (SStr, Sym))


def call_concrete(facts, qual, text):
    """Outcome of the package function ``qual`` on one concrete string (evaluated through the abstract evaluator)."""
    f = facts.program.get(qual)
    it = facts.interp()
    try:
        outs = it.explore(lambda: it.call_func(f, [text], {}, None), max_paths=20)
    except Exception as e:  # CannotEvaluate / PathLimit
        raise AnalysisError(f"cannot evaluate {qual}({text!r}): {e}")
    outs = [o for o in outs if o.kind != "infeasible"]
    if len(outs) != 1:
        raise AnalysisError(f"{qual} is not deterministic on a concrete string")
    return outs[0]


def call_kind(qual):
    """'int' when the expansion function returns the number, 'str' when it returns its decimal digit string."""
    if qual not in _KINDS:
        if _FACTS[0] is None:
            raise AnalysisError("validator model not initialised")
        o = call_concrete(_FACTS[0], qual, "1A")
        v = o.value if o.kind == "return" else None
        if isinstance(v, bool) or not isinstance(v, (int, str)):
            raise AnalysisError(f"opaque string function {qual} returns neither a number nor a digit string on '1A' ({v!r})")
        _KINDS[qual] = "int" if isinstance(v, int) else "str"
    return _KINDS[qual]


_REF = {c: i for i, c in enumerate("0123456789ABCDEFGHIJKLMNOPQRSTUVWXYZ")}
_RESIDUE = {}
_SHORT_PROBES = ["10", "A0", "0A", "AZ", "ZA", "1A2B", "Z9Z", "00A", "B1C2D3", "9Z8Y7X", "99", "ZZZ", "7Q4", "123456789"]


def expansion_ref(text):
    return int("".join(str(_REF[c]) for c in text))


def residue_modulus(qual):
    """M > 1 when the opaque string function ``qual`` returns (letter expansion of its text) mod M on the short probes - it hands out the
    remainder, not the number; None when it returns the number (or its digit string) or something else.  Established by evaluating the
    function on concrete strings; that it does so on long texts too is checked by rule_numerify."""
    if qual not in _RESIDUE:
        from math import gcd
        g = 0
        vals = []
        ok = True
        for t in _SHORT_PROBES:
            o = call_concrete(_FACTS[0], qual, t)
            v = o.value if o.kind == "return" else None
            if isinstance(v, bool) or not isinstance(v, int):
                ok = False
                break
            vals.append((t, v))
            g = gcd(g, expansion_ref(t) - v)
        _RESIDUE[qual] = g if ok and g > 1 and all(0 <= v < g and v == expansion_ref(t) % g for t, v in vals) else None
    return _RESIDUE[qual]


def eval_sym(expr, numerify_value):
    """Evaluate an opaque arithmetic / formatting term with the number the expansion call stands for := numerify_value."""
    if isinstance(expr, (int, str)) and not isinstance(expr, Sym):
        return expr
    if isinstance(expr, Sym):
        k = expr.kind
        if _is_text_call(expr):
            mod = residue_modulus(expr.args[0]) if call_kind(expr.args[0]) == "int" else None
            suffix = const_digit_suffix(numerify_arg(expr))
            if suffix:
                # digits appended to the text before the expansion ("...00"): the call stands for N * 10^k + suffix
                numerify_value = numerify_value * 10 ** len(suffix) + int(suffix)
            if mod:
                return numerify_value % mod
            return numerify_value if call_kind(expr.args[0]) == "int" else str(numerify_value)
        if k == "binop":
            op, a, b = expr.args
            a, b = eval_sym(a, numerify_value), eval_sym(b, numerify_value)
            return {"Add": lambda: a + b, "Sub": lambda: a - b, "Mult": lambda: a * b, "Mod": lambda: a % b,
                    "FloorDiv": lambda: a // b}[op]()
        if k == "format":
            return format(eval_sym(expr.args[0], numerify_value), expr.args[1])
        if k == "concat":
            return "".join(str(eval_sym(p, numerify_value)) for p in expr.args[0])
        if k == "str":
            return str(eval_sym(expr.args[0], numerify_value))
        if k == "int":
            v = eval_sym(expr.args[0], numerify_value)
            if isinstance(v, (int, str)):
                return int(v)
    raise AnalysisError(f"cannot evaluate opaque term {expr!r}")


def expansion_call(expr):
    return _find(expr, _is_text_call)


def numerify_arg(expr):
    c = expansion_call(expr)
    if c is None:
        return None
    (arg,) = c.args[1]
    if isinstance(arg, tuple) and arg and arg[0] == "obj":
        arg = arg[2]
    return arg


def const_digit_suffix(arg):
    """ASCII digits appended as a constant to the symbolic text an expansion call is applied to ('' if none)."""
    t = arg.term if isinstance(arg, SStr) else None
    if t and t[0] == "concat" and len(t) > 2 and isinstance(t[-1], tuple) and t[-1][0] == "const" and isinstance(t[-1][1], str) \
            and t[-1][1].isdigit() and t[-1][1].isascii():
        return t[-1][1]
    return ""


def term_segments(term):
    """SStr term -> list of (start, stop) slices of S it concatenates, or None."""
    if term[0] == "S":
        return [(0, None)]
    if term[0] == "slice" and term[1] == S_TERM:
        return [(term[2] or 0, term[3])]
    if term[0] == "concat":
        out = []
        parts = term[1:]
        if len(parts) > 1 and isinstance(parts[-1], tuple) and parts[-1][0] == "const" and isinstance(parts[-1][1], str) and parts[-1][1].isdigit() and parts[-1][1].isascii():
            parts = parts[:-1]     # constant digits appended to the text: accounted for by eval_sym (const_digit_suffix)
        for t in parts:
            s = term_segments(t)
            if s is None:
                return None
            out.extend(s)
        return out
    return None


# ------------------------------------------------------------------------------------------------ string-function summaries

def string_function_summary(facts, qual):
    """Which characters (of the clean universe) a per-character string function accepts without raising."""
    prog = facts.program
    f = prog.get(qual)
    if not isinstance(f, Func):
        raise AnalysisError(f"anchor vanished: {qual}")
    it = facts.interp()
    safe, unsafe = [], {}
    from .interp import CannotEvaluate
    for c in sorted(TOP_CLEAN.chars):
        arg = CharSet([c]) if c in (ND, OT) else c
        def thunk():
            return it.call_func(f, [arg], {}, None)
        try:
            outs = it.explore(thunk, max_paths=200)
        except CannotEvaluate as e:
            raise AnalysisError(f"cannot summarise {qual}: {e}")
        raising = [o for o in outs if o.kind == "raise"]
        if raising:
            unsafe[c] = raising[0].value
        else:
            safe.append(c)
    # the empty string
    try:
        outs = it.explore(lambda: it.call_func(f, [""], {}, None), max_paths=50)
    except CannotEvaluate as e:
        raise AnalysisError(f"cannot summarise {qual}: {e}")
    empty_exc = next((o.value for o in outs if o.kind == "raise"), None)
    return {"safe": safe, "unsafe": unsafe, "empty_exc": empty_exc, "func": f}


def safe_raw(summary):
    safe = summary["safe"]
    items = tuple(("lit", ord(c)) for c in safe if c not in (ND, OT))
    if OT in safe or ND in safe:
        if OT in safe and ND in safe:
            bad = tuple(("lit", ord(c)) for c in summary["unsafe"] if c not in (ND, OT))
            return ("set", True, bad)
        if ND in safe and OT not in safe and all(c in safe for c in ASCII_DIGITS):
            return ("set", False, items + (("cat", "digit"),))
        raise AnalysisError("string function accepts a non-ASCII class partially: not modelled")
    return ("set", False, items)


# ------------------------------------------------------------------------------------------------ models

class Model:
    """Common machinery: explorations (repeated until the alphabet is stable)."""

    cls_qual = None

    def __init__(self, ctx):
        self.ctx = ctx
        self.facts = ctx.facts
        set_facts(ctx.facts)
        self.prog = ctx.program
        self.va = ValidatorAnalysis(self.facts)
        self.paths = {}
        self.entries = []

    def intrinsics(self):
        return {}

    def run_all(self):
        for _ in range(10):
            alpha0 = self.va.alpha
            self.paths = {}
            for key, entry, kwargs in self.entries:
                self.paths[key] = self.va.explore(self.cls_qual, entry, kwargs, intrinsics=self.intrinsics())
            try:
                self.build_spec()
            except relang.NeedRefine as e:
                self.va.alpha = self.va.alpha.refined(e.raw)
                continue
            if self.va.alpha is alpha0:
                return
        raise AnalysisError("alphabet refinement does not converge")

    @property
    def alpha(self):
        return self.va.alpha

    def all_atoms(self):
        atoms = {}
        for ps in self.paths.values():
            for p in ps:
                for a in p.atoms:
                    if a not in atoms:
                        atoms[a] = classify(a)
        return atoms

    def witness(self, dfa):
        w = dfa.witness()
        if w is None:
            return None
        word, text = w
        return {"text": text, "classes": self.alpha.describe_word(word)}

    def lift(self, term, lang):
        from .theory import StringTheory
        return StringTheory(self.alpha).lift(term, lang)


def nat_intrinsic(it, args, kwargs, node):
    """BBAN.validate_national_checksum as an opaque verdict: True, or the library's checksum error."""
    self_ = args[0]
    ok = it.truth(Sym("nat_ok", "bban"), node)
    if ok:
        return True
    cls = it.program.get("schwifty.exceptions.InvalidBBANChecksum")
    e = ExcVal(cls, ("Invalid national checksum",), node, it._where(node))
    e.func = "BBAN.validate_national_checksum"
    raise Raised(e)


def natdigits_intrinsic(it, args, kwargs, node):
    """compute_national_checksum on symbolic components: an opaque string (the validators of the pinned tree never call it; a tree
    whose validators do works on a text that is no longer the text under validation, which the arithmetic rules then report)."""
    from . import ops
    if not ops.contains_symbolic(list(args) + list(kwargs.values())):
        f = it.program.get("schwifty.bban.compute_national_checksum")
        del it.intrinsics[f.qualname]
        try:
            return it.call_func(f, args, kwargs, node)
        finally:
            it.intrinsics[f.qualname] = natdigits_intrinsic
    return Sym("call", "schwifty.bban.compute_national_checksum", tuple(ops.freeze(a) for a in args))


class IbanModel(Model):
    cls_qual = "schwifty.iban.IBAN"

    def __init__(self, ctx, with_validate=True, falsy_flag=False):
        super().__init__(ctx)
        set_facts(ctx.facts)
        self.entries = [("init", "init", {}), ("init_bban", "init", {"validate_bban": True}),
                        ("is_valid", "is_valid", {})]
        if with_validate:
            self.entries += [("validate", "validate", {}), ("validate_bban", "validate", {"validate_bban": True})]
        if falsy_flag:
            # allow_invalid given as a falsy non-bool (None): still a validating construction
            self.entries += [("init_none", "init", {"allow_invalid": None})]
        self.run_all()

    def intrinsics(self):
        f = self.prog.get("schwifty.bban.BBAN.validate_national_checksum")
        out = {f.qualname: nat_intrinsic}
        g = self.prog.find("schwifty.bban.compute_national_checksum")
        if g is not None:
            out[g.qualname] = natdigits_intrinsic
        return out

    def build_spec(self):
        A = self.alpha
        reg = self.ctx.registry
        digit = A.atoms_of(relang.RAW_ASCII_DIGIT)
        cls_atoms = {"n": digit, "a": A.atoms_of(relang.RAW_ASCII_UPPER), "c": A.atoms_of(relang.RAW_ASCII_ALNUM_UPPER)}
        self.struct = {}
        self.prefix = {}
        self.rightlen = {}
        anystr = DFA.any_string(A)
        for cc in sorted(reg.countries):
            st = reg.structure(cc)
            spec = reg.countries[cc]
            if len(cc) != 2 or not all("A" <= ch <= "Z" for ch in cc):
                continue
            head = [frozenset([A.atom_of_char(cc[0])]), frozenset([A.atom_of_char(cc[1])])]
            self.prefix[cc] = DFA.positional(A, head).concat(anystr)
            if st is None or any(isinstance(x, tuple) or x not in cls_atoms for x in st):
                self.struct[cc] = DFA.empty(A)   # no conforming BBAN exists (C17 reports the data)
            else:
                self.struct[cc] = DFA.positional(A, head + [digit, digit] + [cls_atoms[x] for x in st])
            n = spec.get("iban_length")
            if isinstance(n, int) and n >= 2:
                self.rightlen[cc] = DFA.positional(A, head + [A.all_atoms] * (n - 2))
        self.known_prefix = DFA.union_many(A, self.prefix.values())
        self.struct_all = DFA.union_many(A, self.struct.values())
        self.rightlen_all = DFA.union_many(A, self.rightlen.values())
        self.ascii_alnum = DFA.chars_in(A, A.atoms_of(relang.RAW_ASCII_ALNUM_UPPER))
        self.max34 = DFA.length_in(A, set(range(0, 35)))


class BicModel(Model):
    cls_qual = "schwifty.bic.BIC"

    def __init__(self, ctx):
        super().__init__(ctx)
        self.entries = [("init", "init", {}), ("init_swift", "init", {"enforce_swift_compliance": True}),
                        ("validate", "validate", {}), ("validate_swift", "validate", {"enforce_swift_compliance": True}),
                        ("is_valid", "is_valid", {})]
        self.run_all()

    def build_spec(self):
        A = self.alpha
        alnum = A.atoms_of(relang.RAW_ASCII_ALNUM_UPPER)
        alpha_ = A.atoms_of(relang.RAW_ASCII_UPPER)
        def mk(prefix_cls):
            p8 = [prefix_cls] * 4 + [alpha_] * 2 + [alnum] * 2
            return DFA.positional(A, p8).union(DFA.positional(A, p8 + [alnum] * 3))
        self.spec = {False: mk(alnum), True: mk(alpha_)}
        self.len_ok = DFA.length_in(A, {8, 11})


class LightModel:
    """Just the parts of a model that rules over single functions need (no path exploration)."""

    def __init__(self, ctx):
        self.ctx = ctx
        self.facts = ctx.facts
        set_facts(ctx.facts)
        self.prog = ctx.program
        self.va = ValidatorAnalysis(self.facts)
