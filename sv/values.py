"""Abstract values of the evaluator (E3).

Concrete Python values (int, str, bool, None, tuple, list, dict, frozenset) stand for themselves.
Abstract ones:

* ``VSet``      finite set of concrete hashable values (ints, strs, bools, None)
* ``Interval``  integer interval [lo, hi]
* ``CharSet``   one character out of a finite set of *character atoms*; ASCII characters are their own
                atoms, ``ND`` stands for any non-ASCII decimal digit, ``OT`` for any other non-ASCII,
                non-space character (the universe after ``clean``)
* ``AStr``      string of known length, one CharSet (or concrete char) per position
* ``ABag``      string of length in [lo, hi] with all characters from one CharSet
* ``Sym``       opaque symbolic term (structural, hashable)
* ``SStr``      symbolic string term (the text under validation and its slices / concatenations)
* ``Obj``       instance of a package class; ``ClsRef`` / ``FuncRef`` / ``Bound`` / ``ModRef`` / ``ExtRef``
"""
from __future__ import annotations

ND = "٣"  # ARABIC-INDIC DIGIT THREE: representative of "non-ASCII decimal digit"
OT = "É"  # É: representative of "any other character" (post-clean universe)
LOWER = "abcdefghijklmnopqrstuvwxyz"
ASCII_DIGITS = "0123456789"
ASCII_UPPER = "ABCDEFGHIJKLMNOPQRSTUVWXYZ"
ASCII_PUNCT_CLEAN = "".join(chr(c) for c in range(33, 127) if not chr(c).isalnum())

VSET_CAP = 20000


class Sym:
    __slots__ = ("kind", "args", "_h")

    def __init__(self, kind, *args):
        self.kind = kind
        self.args = args
        self._h = None

    def __hash__(self):
        if self._h is None:
            self._h = hash((self.kind, self.args))
        return self._h

    def __eq__(self, other):
        return isinstance(other, Sym) and self.kind == other.kind and self.args == other.args

    def __repr__(self):
        return f"{self.kind}({', '.join(map(repr, self.args))})"


class SStr:
    """Symbolic string term.  term: ('S', name) | ('slice', term, a, b) | ('concat', t1, t2, ...) | ('const', str)"""

    __slots__ = ("term", "clean")

    def __init__(self, term, clean=True):
        self.term = term
        self.clean = clean

    def __hash__(self):
        return hash(("SStr", self.term))

    def __eq__(self, other):
        return isinstance(other, SStr) and self.term == other.term

    def __repr__(self):
        return f"SStr{self.term!r}"

    @staticmethod
    def concat(parts):
        terms = []
        clean = True
        for p in parts:
            if isinstance(p, str):
                if p == "":
                    continue
                t = ("const", p)
                clean = clean and (p == p.upper() and not any(c.isspace() for c in p))
            else:
                t = p.term
                clean = clean and p.clean
            if t[0] == "concat":
                terms.extend(t[1:])
            else:
                terms.append(t)
        if not terms:
            return ""
        if len(terms) == 1:
            if terms[0][0] == "const":
                return terms[0][1]
            return SStr(terms[0], clean)
        return SStr(("concat",) + tuple(terms), clean)


class VSet:
    __slots__ = ("vals",)

    def __init__(self, vals):
        self.vals = frozenset(vals)

    def __repr__(self):
        v = sorted(self.vals, key=repr)
        if len(v) > 12:
            return f"VSet({len(v)} values: {v[:4]}..{v[-2:]})"
        return f"VSet({v})"

    def __hash__(self):
        return hash(("VSet", self.vals))

    def __eq__(self, other):
        return isinstance(other, VSet) and self.vals == other.vals


class Interval:
    __slots__ = ("lo", "hi")

    def __init__(self, lo, hi):
        self.lo, self.hi = lo, hi

    def __repr__(self):
        return f"Interval[{self.lo},{self.hi}]"

    def __hash__(self):
        return hash(("Interval", self.lo, self.hi))

    def __eq__(self, other):
        return isinstance(other, Interval) and (self.lo, self.hi) == (other.lo, other.hi)


class CharSet:
    __slots__ = ("chars",)

    def __init__(self, chars):
        self.chars = frozenset(chars)

    def __repr__(self):
        def show(c):
            return "ND" if c == ND else "OT" if c == OT else c
        cs = sorted(self.chars)
        s = "".join(show(c) if len(show(c)) == 1 else f"<{show(c)}>" for c in cs)
        if s == ASCII_DIGITS:
            s = "0-9"
        return f"CharSet[{s}]"

    def __hash__(self):
        return hash(("CharSet", self.chars))

    def __eq__(self, other):
        return isinstance(other, CharSet) and self.chars == other.chars


DIGITS = CharSet(ASCII_DIGITS)
UPPER = CharSet(ASCII_UPPER)
ALNUM_UPPER = CharSet(ASCII_DIGITS + ASCII_UPPER)
TOP_CLEAN = CharSet(ASCII_DIGITS + ASCII_UPPER + ASCII_PUNCT_CLEAN + ND + OT)


class AStr:
    __slots__ = ("pos",)

    def __init__(self, pos):
        self.pos = tuple(pos)  # each: 1-char str | CharSet

    def __len__(self):
        return len(self.pos)

    def __repr__(self):
        return "AStr<" + " ".join(p if isinstance(p, str) else repr(p)[8:-1].join("[]") for p in self.pos) + ">"

    def __hash__(self):
        return hash(("AStr", self.pos))

    def __eq__(self, other):
        return isinstance(other, AStr) and self.pos == other.pos

    @staticmethod
    def make(pos):
        pos = tuple(pos)
        out = []
        for p in pos:
            if isinstance(p, CharSet) and len(p.chars) == 1:
                (c,) = p.chars
                if c not in (ND, OT):
                    p = c
            out.append(p)
        if all(isinstance(p, str) for p in out):
            return "".join(out)
        return AStr(out)

    def charset(self):
        cs = set()
        for p in self.pos:
            cs.update(p.chars if isinstance(p, CharSet) else p)
        return CharSet(cs)


class ABag:
    __slots__ = ("lo", "hi", "cs")

    def __init__(self, lo, hi, cs):
        self.lo, self.hi, self.cs = lo, hi, cs

    def __repr__(self):
        return f"ABag[{self.lo}..{self.hi} of {self.cs!r}]"

    def __hash__(self):
        return hash(("ABag", self.lo, self.hi, self.cs))

    def __eq__(self, other):
        return isinstance(other, ABag) and (self.lo, self.hi, self.cs) == (other.lo, other.hi, other.cs)


class Unknown:
    __slots__ = ("why",)

    def __init__(self, why=""):
        self.why = why

    def __repr__(self):
        return f"Unknown({self.why})"


class UnknownInt(Unknown):
    """Some integer (any value): result of forgetting an integer variable carried through a loop of unknown length."""
    __slots__ = ()

    def __repr__(self):
        return f"UnknownInt({self.why})"


class Obj:
    """Instance of a package class.  ``strval`` is set for str subclasses."""

    _ids = 0

    def __init__(self, cls, strval=None):
        self.cls = cls
        self.attrs = {}
        self.strval = strval
        self.fresh = True
        Obj._ids += 1
        self.oid = Obj._ids

    def __repr__(self):
        if self.strval is not None:
            return f"<{self.cls.short} {self.strval!r}>"
        return f"<{self.cls.short} obj#{self.oid}>"


class ClsRef:
    __slots__ = ("cls",)

    def __init__(self, cls):
        self.cls = cls

    def __repr__(self):
        return f"ClsRef({self.cls.short})"

    def __hash__(self):
        return hash(("ClsRef", id(self.cls)))

    def __eq__(self, other):
        return isinstance(other, ClsRef) and self.cls is other.cls


class FuncRef:
    __slots__ = ("func", "closure")

    def __init__(self, func, closure=None):
        self.func = func
        self.closure = closure

    def __repr__(self):
        return f"FuncRef({self.func.short})"


class Bound:
    __slots__ = ("func", "recv", "closure")

    def __init__(self, func, recv, closure=None):
        self.func = func
        self.recv = recv
        self.closure = closure

    def __repr__(self):
        return f"Bound({self.func.short} of {self.recv!r})"


class ModRef:
    __slots__ = ("module",)

    def __init__(self, module):
        self.module = module

    def __repr__(self):
        return f"ModRef({self.module.name})"


class ExtRef:
    """Reference to something outside the package: 're.match', 'string.digits', 'builtins.len' ..."""

    __slots__ = ("name", "recv")

    def __init__(self, name, recv=None):
        self.name = name
        self.recv = recv

    def __repr__(self):
        return f"ExtRef({self.name})"

    def __hash__(self):
        return hash(("ExtRef", self.name))

    def __eq__(self, other):
        return isinstance(other, ExtRef) and self.name == other.name and self.recv is other.recv


class RegexVal:
    __slots__ = ("pattern", "flags")

    def __init__(self, pattern, flags=0):
        self.pattern = pattern
        self.flags = flags

    def __repr__(self):
        return f"RegexVal({self.pattern!r})"

    def __hash__(self):
        return hash(("RegexVal", self.pattern, self.flags))

    def __eq__(self, other):
        return isinstance(other, RegexVal) and (self.pattern, self.flags) == (other.pattern, other.flags)


class CycleVal:
    __slots__ = ("items",)

    def __init__(self, items):
        self.items = list(items)

    def __repr__(self):
        return f"cycle({self.items})"


class ExcVal:
    """An exception instance: cls is a srcmodel.Class or a builtin exception name."""

    def __init__(self, cls, args=(), node=None, where=None):
        self.cls = cls
        self.args = args
        self.node = node
        self.where = where

    @property
    def name(self):
        return self.cls if isinstance(self.cls, str) else self.cls.name

    def __repr__(self):
        return f"ExcVal({self.name})"


BUILTIN_EXC_BASES = {
    "BaseException": [],
    "Exception": ["BaseException"],
    "ArithmeticError": ["Exception"],
    "ZeroDivisionError": ["ArithmeticError"],
    "OverflowError": ["ArithmeticError"],
    "AssertionError": ["Exception"],
    "AttributeError": ["Exception"],
    "LookupError": ["Exception"],
    "IndexError": ["LookupError"],
    "KeyError": ["LookupError"],
    "TypeError": ["Exception"],
    "ValueError": ["Exception"],
    "UnicodeError": ["ValueError"],
    "RuntimeError": ["Exception"],
    "RecursionError": ["RuntimeError"],
    "NotImplementedError": ["RuntimeError"],
    "StopIteration": ["Exception"],
    "ImportError": ["Exception"],
    "OSError": ["Exception"],
    "NameError": ["Exception"],
}


def builtin_exc_mro(name):
    out = [name]
    for b in BUILTIN_EXC_BASES.get(name, []):
        for x in builtin_exc_mro(b):
            if x not in out:
                out.append(x)
    return out


def is_abstract(v):
    return isinstance(v, (VSet, Interval, CharSet, AStr, ABag, Sym, SStr, Unknown))


def is_finite_small(v):
    return isinstance(v, (VSet, CharSet))


def elements(v):
    """Concrete-ish elements of a finite abstract value (atoms ND/OT stay CharSet singletons)."""
    if isinstance(v, VSet):
        return list(v.vals)
    if isinstance(v, CharSet):
        return [CharSet([c]) if c in (ND, OT) else c for c in v.chars]
    return [v]


def join_values(vals):
    """Join of a list of values into one abstract value."""
    vals = list(vals)
    if not vals:
        raise ValueError("join of nothing")
    flat = []
    for v in vals:
        if isinstance(v, VSet):
            flat.extend(v.vals)
        else:
            flat.append(v)
    if all(isinstance(v, (int, str, bool, type(None), tuple, frozenset)) or v is None for v in flat):
        s = set(flat)
        if len(s) == 1:
            return next(iter(s))
        if len(s) <= VSET_CAP:
            # bool/int mix keeps identity (True == 1): keep as given
            return VSet(s)
        if all(isinstance(v, int) for v in s):
            return Interval(min(s), max(s))
        return Unknown("join too large")
    if all(isinstance(v, (int, Interval)) and not isinstance(v, bool) for v in flat):
        lo = min(v if isinstance(v, int) else v.lo for v in flat)
        hi = max(v if isinstance(v, int) else v.hi for v in flat)
        return Interval(lo, hi)
    if all(isinstance(v, (CharSet,)) or (isinstance(v, str) and len(v) == 1) for v in flat):
        cs = set()
        for v in flat:
            cs.update(v.chars if isinstance(v, CharSet) else v)
        return CharSet(cs)
    first = flat[0]
    if all(v is first for v in flat):
        return first
    if all(isinstance(v, (str, AStr)) for v in flat):
        lens = {len(v) for v in flat}
        if len(lens) == 1:
            n = lens.pop()
            pos = []
            for i in range(n):
                cs = set()
                for v in flat:
                    p = v[i] if isinstance(v, str) else v.pos[i]
                    cs.update(p.chars if isinstance(p, CharSet) else p)
                pos.append(CharSet(cs))
            return AStr.make(pos)
        cs = set()
        for v in flat:
            cs.update(v.charset().chars if isinstance(v, AStr) else v)
        return ABag(min(lens), max(lens), CharSet(cs))
    return Unknown(f"join of {sorted({type(v).__name__ for v in flat})}")
