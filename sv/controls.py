"""Positive controls: one-edit in-memory variants of the current tree on which a named rule must fire (see cli.run_controls)."""

I, B, BIC, C, R, CK, G = ("schwifty/iban.py", "schwifty/bban.py", "schwifty/bic.py", "schwifty/common.py", "schwifty/registry.py",
                          "schwifty/checksum/__init__.py", "schwifty/checksum/germany.py")


def _c(name, rule, file, old, new):
    return {"name": name, "rule": rule, "edits": [{"file": file, "old": old, "new": new}]}


# checks fast enough to run their controls on every invocation (quick tier too)
ALWAYS = {"C04", "C10", "C11", "C14", "C15", "C16", "C18", "C12"}

CONTROLS = {
    "C01": [_c("format check skipped for XK", "incl-upper", I, "        self._validate_format()\n", '        if self.country_code != "XK":\n            self._validate_format()\n')],
    "C02": [_c("recomputed digits no longer compared", "conditions", I,
               "if self.numeric % 97 != 1 or not checksum_algo.validate(\n            [self.bban, self.country_code], self.checksum_digits\n        ):",
               "if self.numeric % 97 != 1:")],
    "C03": [_c("modulus 99", "lemma", I, "if self.numeric % 97 != 1 or not", "if self.numeric % 99 != 1 or not")],
    "C04": [_c("prefix match", "incl-upper", BIC, "if not regex.fullmatch(str(self)):", "if not regex.match(str(self)):"),
            _c("strict flag ignored", "incl-upper", BIC, "regex = _bic_swift_re if enforce_swift_compliance else _bic_iso9362_re", "regex = _bic_iso9362_re")],
    "C05": [_c("is_valid handler narrowed", "isvalid", I, "        except exceptions.SchwiftyException:\n            return False\n\n    @property\n    def numeric",
               "        except exceptions.InvalidStructure:\n            return False\n\n    @property\n    def numeric")],
    "C06": [_c("ES weights swapped", "R06-table", "schwifty/checksum/spain.py", "weights = [1, 2, 4, 8, 5, 10, 9, 7, 3, 6]", "weights = [1, 2, 4, 8, 5, 10, 9, 7, 6, 3]"),
            _c("generation-side key format", "R06-dispatch", B, 'algorithms.get(f"{country_code}:default")', 'algorithms.get(f"{country_code}-default")')],
    "C07": [_c("method 33 weights", "R07-table", G, "weights: ClassVar[list[int]] = [2, 3, 4, 5, 6]\n", "weights: ClassVar[list[int]] = [2, 3, 4, 6, 5]\n"),
            _c("reconcile boundary", "R07-digit", G, "return 0 if checksum >= 10 else checksum", "return 0 if checksum > 10 else checksum"),
            _c("bank entry field renamed in the reader", "R07-dispatch", B, 'bank.get("checksum_algo", "default")', 'bank.get("checksum_algorithm", "default")')],
    "C08": [_c("wrong error class for branch", "R08-guards", B, "            raise exceptions.InvalidBranchCode(", "            raise exceptions.InvalidBankCode(")],
    "C09": [_c("validate compares first digit only", "R09-same", CK, "        return self.compute(components) == expected", "        return self.compute(components)[:1] == expected[:1]"),
            _c("accessor one short", "R09-readback", B, "return self._get_slice(position.start, position.end)", "return self._get_slice(position.start, max(position.end - 1, position.start))"),
            _c("random bypasses from_components for BE", "R09-funnel", B, '        if "positions" not in spec:\n            return', '        if "positions" not in spec or country_code == "BE":\n            return')],
    "C10": [_c("ASCII whitespace only", "R10-clean", C, '_clean_regex = re.compile(r"\\s+")', '_clean_regex = re.compile(r"[ \\t\\n]+")'),
            _c("formatted off by one", "R10-format", I, "for i in range(0, len(self), 4))", "for i in range(0, len(self) - 1, 4))")],
    "C11": [_c("proxy swapped", "R11-proxy", I, "        return self.bban.branch_code\n\n    @property\n    def account_code", "        return self.bban.bank_code\n\n    @property\n    def account_code"),
            _c("slice end strict", "R11-tile", C, "if start < len(self) and (end is None or end <= len(self)):", "if start < len(self) and (end is None or end < len(self)):")],
    "C12": [_c("candidates not primary-first", "R12-cand", BIC, 'key=itemgetter("primary"), reverse=True', 'key=itemgetter("primary")')],
    "C13": [_c("Rstr without generator", "R13-det", B, "rstr = Rstr(random)", "rstr = Rstr()")],
    "C14": [_c("module-level cache in numerify", "R14-shared", CK, "def numerify(value: str) -> int:\n    try:",
               "_cache: dict = {}\n\n\ndef numerify(value: str) -> int:\n    _cache[value] = 0\n    try:")],
    "C15": [_c("registry list sorted in place", "R15-writes", B, "        bank_entry = bank_registry.get((self.country_code, key))",
               '        bank_entry = bank_registry.get((self.country_code, key))\n        if bank_entry:\n            bank_entry.sort(key=lambda e: e["primary"], reverse=True)')],
    "C16": [_c("hash of lower-cased text", "R16-eqhash", C, "return hash(str(self))", "return hash(str(self).lower())"),
            _c("getnewargs swapped", "R16-newargs", B, "return self.country_code, str(self)", "return str(self), self.country_code")],
    "C17": [],
    "C18": [_c("left dict wins", "R18-merge", R, "            merged[key] = right_value", "            merged[key] = right_value if not isinstance(left_value, dict) else left_value"),
            _c("listing not sorted", "R18-get", R, 'for entry in sorted(directory.glob("*.json")):', 'for entry in directory.glob("*.json"):')],
}
