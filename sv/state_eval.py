"""Abstract evaluation of every registered algorithm with load / write tracking (shared by C14 and C15)."""
from __future__ import annotations

from .algo_eval import component_value
from .interp import CannotEvaluate, PathLimit
from .srcmodel import AnalysisError
from .values import AStr, DIGITS


def explore_algorithms(ctx, shared):
    """Returns (per-registration stale reads, writes into class-/module-level objects)."""
    facts = ctx.facts
    reg = ctx.registry
    per_reg = []
    shared_writes = {}
    for r in sorted(facts.registrations(), key=lambda x: x.key):
        it = facts.interp(max_paths=30000)
        it.no_split = 1
        it.track_loads = True
        if r.prefix == "DE":
            comps = [AStr([DIGITS] * 10)]
            exp = ""
        else:
            if r.prefix not in reg.countries:
                continue
            obj0 = it.instantiate(r.cls, [], {}, None)
            acc = it.getattr(obj0, "accepts")
            comps = [component_value(reg, r.prefix, str(c)) for c in acc]
            exp = component_value(reg, r.prefix, "national_checksum_digits")
        stale = {}
        for method, args in (("validate", lambda: [list(comps), exp]), ("compute", lambda: [list(comps)])):
            def thunk():
                obj = it.instantiate(r.cls, [], {}, None)
                obj.written = set()
                return it.call(it.getattr(obj, method), args(), {})
            try:
                outs = it.explore(thunk)
            except (CannotEvaluate, PathLimit) as e:
                raise AnalysisError(f"cannot evaluate {r.cls.short}.{method}: {e}")
            for o in outs:
                for e in o.events:
                    if e["kind"] == "stale_read" and id(e["obj"].cls) in shared:
                        stale.setdefault((e["attr"], e["func"]), e)
                    if e["kind"] in ("store_attr", "store_item", "mutate", "global_store") and (e.get("shared") or e["kind"] == "global_store"):
                        name = e.get("shared") or f"{e.get('module')}.{e.get('name')}"
                        shared_writes.setdefault((name, e.get("func"), e.get("where")), e)
        per_reg.append((r, stale))
    return per_reg, shared_writes
