"""E3 — path-forking abstract evaluator for the package's Python subset.

Evaluation is deterministic given a *choice sequence*; ``explore`` replays the thunk for every
choice sequence (depth-first), so no joins are needed at control-flow merges.  Indeterminate
branches, partial operations that may raise, and ``x % m`` on an abstract ``x`` (eager case split,
keeps the remainder correlated with everything derived from it) consume choices.
"""
from __future__ import annotations

import ast

from . import ops
from .srcmodel import AnalysisError, Class, Func, Module, nested_funcs
from .values import (
    AStr, ABag, Bound, CharSet, ClsRef, CycleVal, ExcVal, ExtRef, FuncRef, Interval, ModRef, Obj,
    RegexVal, SStr, Sym, Unknown, VSet, builtin_exc_mro, elements, is_abstract, is_finite_small,
    join_values,
)


class Raised(Exception):
    def __init__(self, exc):
        self.exc = exc


class Infeasible(Exception):
    """The current path contradicts its own assumptions."""


class CannotEvaluate(Exception):
    """Construct or value outside what the evaluator models (the enclosing call turns opaque)."""


class PathLimit(Exception):
    pass


class _Return(Exception):
    def __init__(self, value):
        self.value = value


class _Break(Exception):
    pass


class _Continue(Exception):
    pass


class Frame:
    def __init__(self, func, module, env, cls=None, self_val=None, closure=None):
        self.func = func
        self.module = module
        self.env = env
        self.cls = cls          # class the function is defined in (for super())
        self.self_val = self_val
        self.closure = closure  # enclosing Frame for nested functions
        self.comp_depth = 0


class Outcome:
    def __init__(self, kind, value=None, events=None, assumptions=None, choices=None):
        self.kind = kind            # 'return' | 'raise' | 'infeasible'
        self.value = value          # returned value | ExcVal
        self.events = events or []
        self.assumptions = assumptions or []
        self.choices = choices or []

    def __repr__(self):
        return f"Outcome({self.kind}, {self.value!r})"


class NullTheory:
    def reset(self):
        pass

    def decide(self, cond):
        return None

    def assume(self, cond, value):
        pass

    def snapshot(self):
        return None


BUILTIN_NAMES = {
    "len", "int", "str", "sum", "zip", "enumerate", "reversed", "range", "sorted", "all", "any", "bool",
    "tuple", "list", "dict", "set", "frozenset", "isinstance", "min", "max", "abs", "ord", "chr", "hash",
    "repr", "divmod", "map", "filter", "iter", "next", "type", "super", "print", "getattr", "hasattr",
    "id", "callable", "issubclass", "round", "pow", "format",
}
BUILTIN_EXC = set(ops.BUILTIN_EXC_NAMES)
KNOWN_EXT_BASES = {"object", "str", "Enum", "Generic", "Protocol", "ABC", "NamedTuple"}


class Interp:
    def __init__(self, program, registry=None, theory=None, max_paths=20000, intrinsics=None):
        self.program = program
        self.registry = registry
        self.theory = theory or NullTheory()
        self.max_paths = max_paths
        self.intrinsics = intrinsics or {}   # qualname -> callable(interp, args, kwargs, node)
        self.opaque_funcs = set()            # qualnames never inlined (always opaque Sym call)
        self.opaque_summaries = {}           # qualname -> {"exc": ExcVal}: per-character string functions
        self.lift_cap = 4096
        self.depth = 0
        self.max_depth = 40
        self._class_attr_cache = {}
        self._modconst_cache = {}
        self._attr_read_cache = {}
        self._lift_cache = {}
        self._default_cache = {}
        self.trace = []
        self.prefix = []
        self.events = []
        self.assumptions = []
        self.steps = 0
        self.max_steps = 400000
        self.stats = {"paths": 0, "calls": 0, "lifted": 0, "splits": 0}
        self.called_funcs = set()
        self.no_split = 0
        self.force_attr_split = False
        self.track_loads = False
        self.dedupe_sites = False
        self.retry_loop_cap = 0
        self.persistent_ids = set()        # ids of containers that outlive a path (bundled registry data): mutations are rolled back per path
        self._jstack = []
        self.shared_ids = {}   # id(value) -> name of the class-level / module-level object it is
        self.trace_sites = []
        self.watch = None  # optional callable(event dict)

    # ------------------------------------------------------------------ exploration
    def explore(self, thunk, max_paths=None):
        max_paths = max_paths or self.max_paths
        results = []
        stack = [[]]
        seen_alts = set()
        while stack:
            prefix = stack.pop()
            if len(results) >= max_paths:
                raise PathLimit(f"more than {max_paths} paths")
            self.prefix = prefix
            self.trace = []
            self.trace_sites = []
            self.events = []
            self.assumptions = []
            self.steps = 0
            self.depth = 0
            self.theory.reset()
            self._journal_push()
            try:
                try:
                    value = thunk()
                    out = Outcome("return", value)
                except Raised as r:
                    out = Outcome("raise", r.exc)
                except Infeasible:
                    out = Outcome("infeasible")
            finally:
                self._journal_pop()
            out.events = self.events
            out.assumptions = self.assumptions
            out.choices = [c for c, _ in self.trace]
            out.theory = self.theory.snapshot()
            results.append(out)
            self.stats["paths"] += 1
            for i in range(len(prefix), len(self.trace)):
                chosen, n = self.trace[i]
                site = self.trace_sites[i] if i < len(self.trace_sites) else None
                for alt in range(chosen + 1, n):
                    if site is not None:
                        if (site, alt) in seen_alts:
                            continue
                        seen_alts.add((site, alt))
                    stack.append([c for c, _ in self.trace[:i]] + [alt])
        return results

    def choose(self, n, label=None, site=None):
        """``site``: key of a may-raise fork; with ``dedupe_sites`` each (site, alternative) is explored once."""
        if n <= 0:
            raise Infeasible()
        if n == 1:
            return 0
        i = len(self.trace)
        c = self.prefix[i] if i < len(self.prefix) else 0
        if c >= n:
            raise AnalysisError(f"non-deterministic replay at choice {i} ({label})")
        self.trace.append((c, n))
        self.trace_sites.append(site if self.dedupe_sites else None)
        return c

    def _journal(self, obj):
        """Called before a container is mutated: a container that outlives the path (registry data, class / module level objects)
        is snapshotted once per path and put back when the path ends, so that every path starts from the same data."""
        if not self._jstack or not isinstance(obj, (dict, list)):
            return
        if id(obj) not in self.persistent_ids and id(obj) not in self.shared_ids:
            return
        lvl = self._jstack[-1]
        if id(obj) in lvl[0]:
            return
        lvl[0].add(id(obj))
        lvl[1].append((obj, dict(obj) if isinstance(obj, dict) else list(obj)))

    def _journal_push(self):
        self._jstack.append((set(), []))

    def _journal_pop(self):
        ids, entries = self._jstack.pop()
        for obj, snap in reversed(entries):
            if isinstance(obj, dict):
                obj.clear()
                obj.update(snap)
            else:
                obj[:] = snap

    def event(self, kind, **kw):
        kw["kind"] = kind
        if kind in ("mutate", "store_item"):
            self._journal(kw.get("obj"))
        self.events.append(kw)
        if self.watch:
            self.watch(kw)

    def _attr_read_elsewhere(self, cls, attr, storing_func):
        """Is self.<attr> read by a method of cls's MRO other than the one storing it?"""
        key = (id(cls), attr, id(storing_func))
        c = self._attr_read_cache.get(key)
        if c is None:
            c = False
            for k in cls.mro(self.program):
                for f in k.methods.values():
                    if storing_func is not None and f.node is storing_func.node:
                        continue
                    for n in ast.walk(f.node):
                        if isinstance(n, ast.Attribute) and n.attr == attr and isinstance(n.ctx, ast.Load):
                            c = True
                            break
                    if c:
                        break
                if c:
                    break
            self._attr_read_cache[key] = c
        return c

    def _log_attr(self, obj, attr):
        log = getattr(self, "undo_log", None)
        if log is not None:
            log.append((obj, attr, obj.attrs.get(attr, _MISSING)))

    # ------------------------------------------------------------------ raising helpers
    def raise_builtin(self, name, node=None, msg=""):
        where = self._where(node)
        raise Raised(ExcVal(name, (msg,), node, where))

    def _where(self, node):
        fr = getattr(self, "cur_frame", None)
        if fr is None or node is None:
            return None
        return f"{fr.module.relpath}:{getattr(node, 'lineno', '?')}"

    def may_raise(self, exc_name, node, what, certain=False, witness=None):
        """A partial operation may fail: fork into 'raises' / 'continues' (or always raise)."""
        fr = getattr(self, "cur_frame", None)
        self.event("partial", exc=exc_name, node=node, what=what, certain=certain, witness=witness,
                   where=self._where(node), func=fr.func.short if fr and fr.func else None)
        if certain or self.choose(2, f"raise {exc_name}", site=("raise", id(node), exc_name)) == 1:
            raise Raised(ExcVal(exc_name, (what,), node, self._where(node)))

    # ------------------------------------------------------------------ branching
    def truth(self, v, node=None):
        """Decide truthiness; forks on indeterminate abstract values."""
        t = ops.truth_of(v)
        if t is not None:
            return t
        if isinstance(v, (Sym, SStr)):
            cond = v if isinstance(v, Sym) else Sym("nonempty", v)
            d = self.theory.decide(cond)
            if d is None:
                d = self.choose(2, "branch") == 0
                self.theory.assume(cond, d)
                self.assumptions.append((cond, d))
            return d
        # VSet / CharSet / AStr ... with mixed truthiness
        return self.choose(2, "branch") == 0

    # ------------------------------------------------------------------ calling
    def call(self, callee, args, kwargs=None, node=None):
        kwargs = kwargs or {}
        self.steps += 1
        if self.steps > self.max_steps:
            raise AnalysisError("evaluation step limit exceeded")
        if isinstance(callee, FuncRef):
            return self.call_func(callee.func, list(args), kwargs, node, closure=callee.closure)
        if isinstance(callee, Bound):
            return self.call_func(callee.func, [callee.recv] + list(args), kwargs, node, closure=callee.closure)
        if isinstance(callee, ClsRef):
            return self.instantiate(callee.cls, list(args), kwargs, node)
        if isinstance(callee, ExtRef):
            return ops.call_ext(self, callee, list(args), kwargs, node)
        if isinstance(callee, ops.SuperNew):
            return callee(self, list(args), kwargs, node)
        if callable(callee) and getattr(callee, "_sv_intrinsic", False):
            return callee(self, list(args), kwargs, node)
        raise CannotEvaluate(f"call of {callee!r}")

    def _liftable(self, func, args, kwargs):
        if func.kind == "property":
            return False
        vals = list(args) + list(kwargs.values())
        abstract = [v for v in vals if is_finite_small(v)]
        if not abstract:
            return False
        for v in vals:
            if isinstance(v, (Obj, ClsRef)):
                continue
            if is_abstract(v) and not is_finite_small(v):
                return False
            if isinstance(v, (list, dict)):
                return False
        n = 1
        for v in abstract:
            n *= len(v.vals if isinstance(v, VSet) else v.chars)
        if n > self.lift_cap:
            return False
        return not ops.func_has_side_effects(func)

    def call_func(self, func, args, kwargs, node, closure=None):
        q = func.qualname
        if q in self.intrinsics:
            return self.intrinsics[q](self, args, kwargs, node)
        self.called_funcs.add(q)
        if q in self.opaque_funcs:
            return Sym("call", q, tuple(ops.freeze(a) for a in args))
        if self._liftable(func, args, kwargs):
            return self._lifted_call(func, args, kwargs, node, closure)
        mark_trace, mark_events, mark_asm = len(self.trace), len(self.events), len(self.assumptions)
        try:
            return self._inline(func, args, kwargs, node, closure)
        except CannotEvaluate as e:
            if func.cls is None and len(args) == 1 and not kwargs and \
                    any(isinstance(a, (Sym, SStr)) or (isinstance(a, Obj) and isinstance(a.strval, SStr)) for a in args) \
                    and len(self.trace) == mark_trace:
                del self.events[mark_events:]
                del self.assumptions[mark_asm:]
                self.event("opaque_call", func=q, args=args, node=node, why=str(e), where=self._where(node),
                           snapshot=self.theory.snapshot(), caller=getattr(getattr(self.cur_frame, "func", None), "short", None))
                summ = self.opaque_summaries.get(q)
                if summ is not None and len(args) == 1:
                    a0 = ops.strval(args[0])
                    if isinstance(a0, SStr):
                        ok = True if summ["exc"] is None else self.truth(Sym("strsafe", q, a0), node)
                        if not ok:
                            exc = summ["exc"]
                            ev = ExcVal(exc.cls, exc.args, exc.node, exc.where)
                            ev.func = func.short
                            self.event("partial", exc=ev.name, node=ev.node, what=f"call of {func.short} on a text with a character it rejects",
                                       certain=True, where=ev.where, func=func.short, excval=ev)
                            raise Raised(ev)
                elif summ is None:
                    self.event("unsummarised_opaque", func=q, where=self._where(node))
                return Sym("call", q, tuple(ops.freeze(a) for a in args))
            raise

    def _lift_key(self, func, args, kwargs, closure):
        if closure is not None:
            return None
        parts = [func.qualname]
        for v in list(args) + [x for kv in sorted(kwargs.items()) for x in kv]:
            if isinstance(v, Obj):
                try:
                    parts.append(("obj", v.cls.qualname, v.strval if not isinstance(v.strval, Obj) else None,
                                  tuple(sorted((k, ops.freeze(x)) for k, x in v.attrs.items()))))
                except TypeError:
                    return None
            else:
                parts.append(ops.freeze(v))
        key = tuple(parts)
        try:
            hash(key)
        except TypeError:
            return None
        return key

    def _lifted_call(self, func, args, kwargs, node, closure):
        self.stats["lifted"] += 1
        key = self._lift_key(func, args, kwargs, closure)
        options = self._lift_cache.get(key) if key is not None else None
        if options is None:
            options = self._lifted_options(func, args, kwargs, node, closure)
            if key is not None:
                self._lift_cache[key] = options
        if not options:
            raise Infeasible()
        rets = [o for o in options if o[0] == "ret"]
        for o in options:
            if o[0] == "exc":
                self.event("partial", exc=o[1].name, node=o[1].node or node, what=f"call of {func.short}",
                           certain=not rets, witness=o[2], where=o[1].where or self._where(node),
                           func=func.short, excval=o[1])
        pick = options[self.choose(len(options), "lifted outcome", site=("lifted", func.qualname, id(node)))]
        if pick[0] == "exc":
            raise Raised(pick[1])
        return pick[1]

    def _lifted_options(self, func, args, kwargs, node, closure):
        names = list(kwargs)
        slots = list(args) + [kwargs[k] for k in names]
        idx = [i for i, v in enumerate(slots) if is_finite_small(v)]
        combos = [[]]
        for i in idx:
            combos = [c + [e] for c in combos for e in elements(slots[i])]
        rets, excs = [], {}
        sub = SubRun(self)
        for combo in combos:
            cur = list(slots)
            for i, e in zip(idx, combo):
                cur[i] = e
            a = cur[: len(args)]
            kw = dict(zip(names, cur[len(args):]))
            for out in sub.run(lambda: self._inline(func, a, kw, node, closure)):
                if out.kind == "return":
                    rets.append(out.value)
                elif out.kind == "raise":
                    excs.setdefault(out.value.name, (out.value, combo))
        options = []
        if rets:
            options.append(("ret", join_values(rets)))
        for name, (exc, combo) in sorted(excs.items()):
            options.append(("exc", exc, combo))
        return options

    def _bind(self, func, args, kwargs, node):
        a = func.node.args
        params = [x.arg for x in a.posonlyargs + a.args]
        env = {}
        args = list(args)
        if len(args) > len(params) and not a.vararg:
            self.may_raise("TypeError", node, f"{func.short}() takes {len(params)} positional arguments but {len(args)} were given", certain=True)
        for p, v in zip(params, args):
            env[p] = v
        extra = args[len(params):]
        if a.vararg:
            env[a.vararg.arg] = tuple(extra)
        kwonly = [x.arg for x in a.kwonlyargs]
        rest = {}
        for k, v in kwargs.items():
            if k in params or k in kwonly:
                if k in env:
                    self.may_raise("TypeError", node, f"{func.short}() got multiple values for argument {k!r}", certain=True)
                env[k] = v
            elif a.kwarg:
                rest[k] = v
            else:
                self.may_raise("TypeError", node, f"{func.short}() got an unexpected keyword argument {k!r}", certain=True)
        if a.kwarg:
            env[a.kwarg.arg] = rest
        defaults = a.defaults
        for p, d in zip(params[len(params) - len(defaults):], defaults):
            if p not in env:
                env[p] = ("__default__", d)
        for p, d in zip(kwonly, a.kw_defaults):
            if p not in env and d is not None:
                env[p] = ("__default__", d)
        for p in params + kwonly:
            if p not in env:
                self.may_raise("TypeError", node, f"{func.short}() missing required argument {p!r}", certain=True)
        return env

    def _inline(self, func, args, kwargs, node, closure=None):
        self.stats["calls"] += 1
        self.depth += 1
        if self.depth > self.max_depth:
            self.depth -= 1
            raise AnalysisError(f"inlining depth {self.max_depth} exceeded at {func.qualname}")
        env = self._bind(func, args, kwargs, node)
        self_val = None
        if func.cls is not None and func.kind != "staticmethod" and args:
            self_val = args[0]
        frame = Frame(func, func.module, env, cls=func.cls, self_val=self_val, closure=closure)
        saved = getattr(self, "cur_frame", None)
        self.cur_frame = frame
        try:
            for k, v in list(env.items()):
                if isinstance(v, tuple) and len(v) == 2 and v[0] == "__default__":
                    # Python evaluates a default once, at definition time: one object shared by every call
                    dk = (id(func.node), k)
                    if dk not in self._default_cache:
                        dv = self.eval(v[1], frame)
                        self._default_cache[dk] = dv
                        if isinstance(dv, (list, dict, Obj, CycleVal)):
                            self.shared_ids[id(dv)] = f"default argument {k!r} of {func.short}"
                    env[k] = self._default_cache[dk]
            try:
                self.exec_block(func.node.body, frame)
            except _Return as r:
                return r.value
            return None
        finally:
            self.cur_frame = saved
            self.depth -= 1

    def instantiate(self, cls, args, kwargs, node):
        prog = self.program
        hook = self.intrinsics.get("new:" + cls.qualname)
        if hook is not None:
            return hook(self, args, kwargs, node)
        if ops.is_dataclass(cls):
            return ops.make_dataclass(self, cls, args, kwargs, node)
        exts = cls.ext_bases(prog)
        if ops.namedtuple_fields(self, cls) is not None:
            new = cls.lookup(prog, "__new__")
            if new is not None and new[1] == "method":
                raise CannotEvaluate("NamedTuple with its own __new__")
            return ops.make_namedtuple(self, cls, args, kwargs, node)
        unknown = [e for e in exts if e.split(".")[-1] not in KNOWN_EXT_BASES and e.split(".")[-1] not in ops.BUILTIN_EXC_NAMES]
        if unknown:
            # instances of a class with a base the model does not know must not be invented: the evaluation gives up
            raise CannotEvaluate(f"class {cls.short} has an external base outside the model ({unknown[0]})")
        if any(e in ("enum.Enum", "Enum") for e in exts):
            raise CannotEvaluate("enum construction")
        new = cls.lookup(prog, "__new__")
        if new is not None and new[1] == "method":
            obj = self.call_func(new[2], [ClsRef(cls)] + args, kwargs, node)
        else:
            if any(e in ("str",) for e in exts):
                if len(args) != 1 or kwargs:
                    self.may_raise("TypeError", node, "str() argument mismatch", certain=True)
                obj = Obj(cls, strval=ops.to_str(self, args[0], node))
            elif any(e in ops.BUILTIN_EXC_NAMES for e in exts):
                return ExcVal(cls, tuple(args), node, self._where(node))
            else:
                obj = Obj(cls)
        if isinstance(obj, Obj) and obj.cls.is_subclass_of(prog, cls):
            init = obj.cls.lookup(prog, "__init__")
            if init is not None and init[1] == "method":
                self.call_func(init[2], [obj] + args, kwargs, node)
            elif args or kwargs:
                if not (new is not None and new[1] == "method") and not exts:
                    self.may_raise("TypeError", node, f"{cls.short}() takes no arguments", certain=True)
        return obj

    # ------------------------------------------------------------------ statements
    def exec_block(self, body, frame):
        for st in body:
            self.exec_stmt(st, frame)

    def exec_stmt(self, st, frame):
        self.steps += 1
        if self.steps > self.max_steps:
            raise AnalysisError("evaluation step limit exceeded")
        m = getattr(self, "st_" + type(st).__name__, None)
        if m is None:
            raise CannotEvaluate(f"statement {type(st).__name__}")
        self.cur_frame = frame
        return m(st, frame)

    def st_Expr(self, st, frame):
        self.eval(st.value, frame)

    def st_Pass(self, st, frame):
        pass

    def st_Return(self, st, frame):
        raise _Return(self.eval(st.value, frame) if st.value is not None else None)

    def st_Assign(self, st, frame):
        v = self.eval(st.value, frame)
        for t in st.targets:
            self.assign(t, v, frame)

    def st_AnnAssign(self, st, frame):
        if st.value is not None:
            self.assign(st.target, self.eval(st.value, frame), frame)

    def st_AugAssign(self, st, frame):
        cur = self.eval(_as_load(st.target), frame)
        v = ops.binop(self, type(st.op).__name__, cur, self.eval(st.value, frame), st)
        self.assign(st.target, v, frame)

    def assign(self, target, v, frame):
        if isinstance(target, ast.Name):
            if target.id in getattr(frame, "globals_decl", ()):
                self.event("global_store", name=target.id, module=frame.module.name, value=v, node=target,
                           func=frame.func.short if frame.func else None)
                self._modconst_cache[(frame.module.name, target.id)] = v
                return
            frame.env[target.id] = v
        elif isinstance(target, (ast.Tuple, ast.List)):
            items = ops.unpack(self, v, len(target.elts), target)
            for t, x in zip(target.elts, items):
                self.assign(t, x, frame)
        elif isinstance(target, ast.Attribute):
            obj = self.eval(target.value, frame)
            if isinstance(obj, Obj):
                if isinstance(v, VSet) and 1 < len(v.vals) <= 128 and self.no_split == 0 and \
                        all(isinstance(x, int) and not isinstance(x, bool) for x in v.vals) and \
                        (self.force_attr_split or self._attr_read_elsewhere(obj.cls, target.attr, frame.func)):
                    # state kept on an object: case split keeps it correlated with what is derived from it
                    vals = sorted(v.vals)
                    self.stats["splits"] += 1
                    v = vals[self.choose(len(vals), "attr split")]
                self.event("store_attr", obj=obj, attr=target.attr, value=v, node=target,
                           func=frame.func.short if frame.func else None, shared=self.shared_ids.get(id(obj)),
                           where=self._where(target))
                self._log_attr(obj, target.attr)
                obj.attrs[target.attr] = v
                if self.track_loads:
                    if not hasattr(obj, "written"):
                        obj.written = set()
                    obj.written.add(target.attr)
            else:
                raise CannotEvaluate(f"attribute store on {obj!r}")
        elif isinstance(target, ast.Subscript):
            obj = self.eval(target.value, frame)
            key = self.eval(target.slice, frame)
            if isinstance(obj, (dict, list)) and not is_abstract(key):
                self.event("store_item", obj=obj, key=key, value=v, node=target, shared=self.shared_ids.get(id(obj)),
                           where=self._where(target), func=frame.func.short if frame.func else None)
                try:
                    obj[key] = v
                except (IndexError, TypeError) as e:
                    self.raise_builtin(type(e).__name__, target, str(e))
            else:
                raise CannotEvaluate("subscript store on abstract value")
        else:
            raise CannotEvaluate(f"assignment target {type(target).__name__}")

    def st_If(self, st, frame):
        if self.eval_cond(st.test, frame):
            self.exec_block(st.body, frame)
        else:
            self.exec_block(st.orelse, frame)

    def eval_cond(self, test, frame):
        """Evaluate a branch condition with refinement of the tested variable."""
        if isinstance(test, ast.UnaryOp) and isinstance(test.op, ast.Not):
            return not self.eval_cond(test.operand, frame)
        if isinstance(test, ast.BoolOp):
            if isinstance(test.op, ast.And):
                for v in test.values:
                    if not self.eval_cond(v, frame):
                        return False
                return True
            for v in test.values:
                if self.eval_cond(v, frame):
                    return True
            return False
        if isinstance(test, ast.Compare) and len(test.ops) == 1:
            left = self.eval(test.left, frame)
            right = self.eval(test.comparators[0], frame)
            opname = type(test.ops[0]).__name__
            self.event("compare", op=opname, left=left, right=right, node=test,
                       func=frame.func.short if frame.func else None)
            res = ops.compare(self, opname, left, right, test)
            t = ops.truth_of(res)
            if t is not None:
                return t
            # refinement of a tested variable holding a finite set
            if isinstance(left, (VSet, CharSet)) and not is_abstract(right) and _refinable(test.left):
                yes, no = ops.partition(self, opname, left, right)
                if yes is not None and no is not None:
                    pick = self.choose(2, "branch") == 0
                    self._rebind(test.left, yes if pick else no, frame)
                    return pick
            return self.truth(res, test)
        if isinstance(test, ast.NamedExpr):
            v = self.eval(test, frame)
            return self.truth(v, test)
        return self.truth(self.eval(test, frame), test)

    def _rebind(self, target, v, frame):
        if isinstance(target, ast.Name):
            if target.id in frame.env:
                frame.env[target.id] = v
        elif isinstance(target, ast.Attribute):
            obj = self.eval(target.value, frame)
            if isinstance(obj, Obj) and target.attr in obj.attrs:
                self._log_attr(obj, target.attr)
                obj.attrs[target.attr] = v
                if self.track_loads:
                    if not hasattr(obj, "written"):
                        obj.written = set()
                    obj.written.add(target.attr)

    def _retry_counter(self, st):
        """`while c < N:` with `c += k` in the body and no other use of c: a retry loop written with a counter.  -> (name, exit value)"""
        t = st.test
        if not (isinstance(t, ast.Compare) and len(t.ops) == 1 and isinstance(t.left, ast.Name) and isinstance(t.ops[0], (ast.Lt, ast.LtE))
                and isinstance(t.comparators[0], ast.Constant) and isinstance(t.comparators[0].value, int)):
            return None
        c = t.left.id
        incs = [x for x in st.body if isinstance(x, ast.AugAssign) and isinstance(x.target, ast.Name) and x.target.id == c
                and isinstance(x.op, ast.Add) and isinstance(x.value, ast.Constant) and isinstance(x.value.value, int) and x.value.value > 0]
        if len(incs) != 1:
            return None
        uses = [n for b in st.body for n in ast.walk(b) if isinstance(n, ast.Name) and n.id == c]
        if len(uses) != 1:   # only the target of the increment
            return None
        bound = t.comparators[0].value
        return c, (bound if isinstance(t.ops[0], ast.Lt) else bound + 1)

    def st_While(self, st, frame):
        n = 0
        counter = self._retry_counter(st) if self.retry_loop_cap else None
        while self.eval_cond(st.test, frame):
            n += 1
            if counter is not None and n > self.retry_loop_cap:
                # counter-style retry loop: iterations are abstractly identical (the counter is used for nothing else); as for
                # `for _ in range(N)` the remaining iterations are skipped and the loop leaves through its exhausted exit
                frame.env[counter[0]] = counter[1]
                break
            if n > 200:
                raise AnalysisError("while loop does not stabilise within 200 abstract iterations")
            try:
                self.exec_block(st.body, frame)
            except _Break:
                return
            except _Continue:
                continue
        self.exec_block(st.orelse, frame)

    _MUTATORS = {"append", "extend", "add", "update", "insert", "pop", "remove", "clear", "setdefault", "sort", "reverse", "discard", "popitem"}

    def _for_over_bag(self, st, frame, bag, enum_start):
        """`for x in <string of unknown length>`: one abstract iteration after forgetting everything the loop carries.
        Sound for 'which exceptions can escape' and for values that do not depend on the carried state; every variable the body
        stores to (or mutates through a method / subscript / attribute store) is an unknown value during and after the loop."""
        carried = set()
        for b in st.body:
            for n in ast.walk(b):
                if isinstance(n, ast.Name) and isinstance(n.ctx, (ast.Store, ast.Del)):
                    carried.add(n.id)
                elif isinstance(n, (ast.Attribute, ast.Subscript)) and isinstance(n.ctx, (ast.Store, ast.Del)):
                    r = n
                    while isinstance(r, (ast.Attribute, ast.Subscript)):
                        r = r.value
                    if isinstance(r, ast.Name):
                        if r.id in ("self", "cls"):
                            raise CannotEvaluate("loop over a string of unknown length stores to object state")
                        carried.add(r.id)
                elif isinstance(n, ast.Call) and isinstance(n.func, ast.Attribute) and n.func.attr in self._MUTATORS and isinstance(n.func.value, ast.Name):
                    carried.add(n.func.value.id)
                elif isinstance(n, (ast.Global, ast.Nonlocal, ast.Return, ast.Yield, ast.YieldFrom)):
                    if not isinstance(n, ast.Return):
                        raise CannotEvaluate("loop over a string of unknown length with global / nonlocal / yield")
        if bag.lo == 0 and self.choose(2, "loop over a possibly empty string") == 0:
            self.exec_block(st.orelse, frame)
            return
        if bag.hi == 0:
            self.exec_block(st.orelse, frame)
            return

        from .values import UnknownInt
        why = "carried by a loop over a string of unknown length"

        def is_int(v):
            return isinstance(v, UnknownInt) or (not isinstance(v, bool) and ops.as_intset(v) is not None)

        def cell(nm):
            g = frame
            while g is not None:
                if nm in g.env:
                    return g
                g = g.closure
            return None

        # integer accumulators stay integers if one iteration maps "some integer" to an integer (induction over the iterations)
        int_candidates = {nm for nm in carried if cell(nm) is not None and is_int(cell(nm).env[nm])}

        def havoc(keep_int):
            for nm in carried:
                g = cell(nm)
                if g is not None:
                    g.env[nm] = UnknownInt(why) if nm in keep_int else Unknown(why)

        havoc(int_candidates)
        if enum_start is None:
            self.assign(st.target, bag.cs, frame)
        else:
            idx = Interval(enum_start, enum_start + max(bag.hi - 1, 0)) if bag.hi > 1 else enum_start
            self.assign(st.target, (idx, bag.cs), frame)
        def still_int():
            return {nm for nm in int_candidates if cell(nm) is not None and is_int(cell(nm).env[nm])}

        try:
            self.exec_block(st.body, frame)
        except _Break:
            if still_int() != int_candidates:
                raise CannotEvaluate("loop over a string of unknown length changes the type of an accumulator")
            havoc(int_candidates)
            return
        except _Continue:
            pass
        if still_int() != int_candidates:
            raise CannotEvaluate("loop over a string of unknown length changes the type of an accumulator")
        havoc(int_candidates)
        self.exec_block(st.orelse, frame)

    def st_For(self, st, frame):
        src = self.eval(st.iter, frame)
        if isinstance(ops.strval(src), ABag):
            return self._for_over_bag(st, frame, ops.strval(src), None)
        if isinstance(src, libmodel_EnumBag()):
            return self._for_over_bag(st, frame, src.bag, src.start)
        it = ops.iterate(self, src, st.iter)
        if self.retry_loop_cap and len(it) > self.retry_loop_cap and isinstance(st.target, ast.Name) and st.target.id == "_":
            # `for _ in range(N)` retry loops: iterations are abstractly identical, the cap keeps path counts finite
            it = it[: self.retry_loop_cap]
        for x in it:
            self.assign(st.target, x, frame)
            try:
                self.exec_block(st.body, frame)
            except _Break:
                return
            except _Continue:
                continue
        self.exec_block(st.orelse, frame)

    def st_Break(self, st, frame):
        raise _Break()

    def st_Continue(self, st, frame):
        raise _Continue()

    def st_Raise(self, st, frame):
        if st.exc is None:
            cur = getattr(frame, "handling", None)
            if cur is None:
                self.raise_builtin("RuntimeError", st, "No active exception to reraise")
            raise Raised(cur)
        v = self.eval(st.exc, frame)
        if isinstance(v, ClsRef):
            v = self.instantiate(v.cls, [], {}, st)
        elif isinstance(v, ExtRef) and v.name.split(".")[-1] in BUILTIN_EXC:
            v = ExcVal(v.name.split(".")[-1], (), st, self._where(st))
        if not isinstance(v, ExcVal):
            raise CannotEvaluate(f"raise of {v!r}")
        v.node = st
        v.where = self._where(st)
        v.func = frame.func.short if frame.func else None
        self.event("raise", exc=v, node=st, func=v.func)
        raise Raised(v)

    def st_Assert(self, st, frame):
        if not self.eval_cond(st.test, frame):
            self.event("partial", exc="AssertionError", node=st, what="assert " + ast.unparse(st.test),
                       certain=True, where=self._where(st), func=frame.func.short if frame.func else None)
            raise Raised(ExcVal("AssertionError", (), st, self._where(st)))

    def st_Try(self, st, frame):
        try:
            try:
                self.exec_block(st.body, frame)
            except Raised as r:
                for h in st.handlers:
                    if self.exc_matches(r.exc, h.type, frame):
                        self.event("caught", exc=r.exc, handler=h, func=frame.func.short if frame.func else None)
                        if h.name:
                            frame.env[h.name] = r.exc
                        prev = getattr(frame, "handling", None)
                        frame.handling = r.exc
                        try:
                            self.exec_block(h.body, frame)
                        finally:
                            frame.handling = prev
                        break
                else:
                    raise
            else:
                self.exec_block(st.orelse, frame)
        finally:
            if st.finalbody:
                self.exec_block(st.finalbody, frame)

    def exc_matches(self, exc, type_node, frame):
        if type_node is None:
            return True
        t = self.eval(type_node, frame)
        targets = list(t) if isinstance(t, tuple) else [t]
        names = self.exc_mro_names(exc)
        for x in targets:
            if isinstance(x, ClsRef):
                if not isinstance(exc.cls, str) and x.cls in exc.cls.mro(self.program):
                    return True
            elif isinstance(x, ExtRef):
                if x.name.split(".")[-1] in names:
                    return True
            else:
                raise CannotEvaluate(f"except clause type {x!r}")
        return False

    def exc_mro_names(self, exc):
        if isinstance(exc.cls, str):
            return builtin_exc_mro(exc.cls)
        out = []
        for c in exc.cls.mro(self.program):
            for b in c.resolve_bases(self.program):
                if isinstance(b, str):
                    for n in builtin_exc_mro(b.split(".")[-1]):
                        if n not in out:
                            out.append(n)
        return out

    def st_With(self, st, frame):
        for item in st.items:
            v = self.eval(item.context_expr, frame)
            if not isinstance(v, ops.FileVal):
                raise CannotEvaluate("with statement over an unmodelled context manager")
            if item.optional_vars is not None:
                self.assign(item.optional_vars, v, frame)
        self.exec_block(st.body, frame)

    def st_FunctionDef(self, st, frame):
        f = Func(frame.module, st, cls=None, outer=frame.func)
        frame.env[st.name] = FuncRef(f, closure=frame)

    def st_Import(self, st, frame):
        raise CannotEvaluate("local import")

    st_ImportFrom = st_Import

    def st_Global(self, st, frame):
        if not hasattr(frame, "globals_decl"):
            frame.globals_decl = set()
        frame.globals_decl.update(st.names)

    def st_Delete(self, st, frame):
        raise CannotEvaluate("del statement")

    # ------------------------------------------------------------------ expressions
    def eval(self, node, frame):
        m = getattr(self, "ex_" + type(node).__name__, None)
        if m is None:
            raise CannotEvaluate(f"expression {type(node).__name__}")
        return m(node, frame)

    def ex_Constant(self, node, frame):
        return node.value

    def ex_Name(self, node, frame):
        return self.lookup_name(node.id, frame, node)

    def lookup_name(self, name, frame, node=None):
        f = frame
        while f is not None:
            if name in f.env:
                return f.env[name]
            f = f.closure
        cs = getattr(frame, "cls_scope", None)
        if cs is not None:
            # evaluating a class-level expression: names bound earlier in the class body are visible (not inherited ones)
            if name in cs.nested:
                return ClsRef(cs.nested[name])
            if name in cs.attrs:
                return self.class_attr(cs, name)
            if name in cs.methods:
                return FuncRef(cs.methods[name])
        return self.module_name(frame.module, name, node)

    def module_name(self, module, name, node=None):
        prog = self.program
        d = prog.resolve_name(module, name)
        if d is not None:
            return self.def_value(d)
        if name in BUILTIN_NAMES:
            return ExtRef("builtins." + name)
        if name in BUILTIN_EXC:
            return ExtRef("builtins." + name)
        if name in ("True", "False", "None"):
            return {"True": True, "False": False, "None": None}[name]
        if name == "__package__":
            return module.package
        if name == "__name__":
            return module.name
        raise CannotEvaluate(f"unresolved name {name!r} in {module.name}")

    def def_value(self, d):
        if isinstance(d, Func):
            return FuncRef(d)
        if isinstance(d, Class):
            return ClsRef(d)
        if isinstance(d, Module):
            return ModRef(d)
        if isinstance(d, tuple):
            tag = d[0]
            if tag == "modconst":
                return self.module_const(d[1], d[2])
            if tag == "clsconst":
                return self.class_attr(d[1], d[2])
            if tag in ("ext", "extmodule"):
                return ops.ext_value(d[1])
        raise CannotEvaluate(f"cannot take the value of {d!r}")

    def module_const(self, module, name):
        key = (module.name, name)
        if key in self._modconst_cache:
            v = self._modconst_cache[key]
            if v is _IN_PROGRESS:
                raise CannotEvaluate(f"cyclic module constant {key}")
            return v
        special = ops.special_module_const(self, module, name)
        if special is not None:
            self._modconst_cache[key] = special
            return special
        d = module.defs[name]
        self._modconst_cache[key] = _IN_PROGRESS
        try:
            fr = Frame(None, module, {})
            saved = getattr(self, "cur_frame", None)
            saved_split = self.no_split
            self.no_split += 1
            try:
                v = self.eval(d[1], fr)
            finally:
                self.cur_frame = saved
                self.no_split = saved_split
        except BaseException:
            del self._modconst_cache[key]
            raise
        self._modconst_cache[key] = v
        if isinstance(v, (Obj, list, dict, CycleVal)):
            self.shared_ids[id(v)] = f"{module.name}.{name}"
        return v

    def class_attr(self, cls, name):
        key = (id(cls), name)
        if key in self._class_attr_cache:
            return self._class_attr_cache[key]
        fr = Frame(None, cls.module, {})
        fr.cls_scope = cls
        saved = getattr(self, "cur_frame", None)
        try:
            v = self.eval(cls.attrs[name], fr)
        finally:
            self.cur_frame = saved
        self._class_attr_cache[key] = v
        if isinstance(v, (Obj, list, dict, CycleVal)):
            self.shared_ids[id(v)] = f"{cls.short}.{name}"
        return v

    def ex_Attribute(self, node, frame):
        base = self.eval(node.value, frame)
        return self.getattr(base, node.attr, node, frame)

    def getattr(self, base, name, node=None, frame=None):
        prog = self.program
        if isinstance(base, Obj):
            if name in base.attrs:
                if self.track_loads and name not in getattr(base, "written", ()):
                    fr = getattr(self, "cur_frame", None)
                    self.event("stale_read", obj=base, attr=name, node=node, where=self._where(node),
                               func=fr.func.short if fr and fr.func else None)
                return base.attrs[name]
            r = base.cls.lookup(prog, name)
            if r is None:
                if name == "__class__":
                    return ClsRef(base.cls)
                if name == "__dict__":
                    return base.attrs
                if base.strval is not None:
                    return ExtRef("str." + name, recv=base)
                self.may_raise("AttributeError", node, f"{base.cls.short} object has no attribute {name!r}", certain=True)
            return self._class_member(r, base, base.cls, name, node)
        if isinstance(base, ClsRef):
            r = base.cls.lookup(prog, name)
            if r is None:
                if name == "__name__":
                    return base.cls.name
                ev = ops.enum_member(self, base.cls, name)
                if ev is not None:
                    return ev
                raise CannotEvaluate(f"class attribute {base.cls.short}.{name}")
            ev = ops.enum_member(self, base.cls, name)
            if ev is not None:
                return ev
            return self._class_member(r, None, base.cls, name, node)
        if isinstance(base, ModRef):
            d = prog.resolve_expr(base.module, ast.Name(id=name))
            if d is None:
                sub = f"{base.module.name}.{name}"
                if sub in prog.modules:
                    return ModRef(prog.modules[sub])
                raise CannotEvaluate(f"module attribute {base.module.name}.{name}")
            return self.def_value(d)
        if isinstance(base, ops.SuperProxy):
            return base.getattr(self, name, node)
        if isinstance(base, ExtRef) and base.recv is None:
            return ops.ext_value(base.name + "." + name)
        if isinstance(base, ExcVal):
            if name == "args":
                return tuple(base.args)
            raise CannotEvaluate(f"exception attribute {name}")
        return ops.value_attr(self, base, name, node)

    def _class_member(self, r, obj, cls, name, node):
        c, kind, member = r
        if kind == "attr":
            return self.class_attr(c, name)
        if kind == "class":
            return ClsRef(member)
        f = member
        if f.kind == "property":
            if obj is None:
                raise CannotEvaluate("property on class")
            return self.call_func(f, [obj], {}, node)
        if f.kind == "classmethod":
            return Bound(f, ClsRef(cls if obj is None else obj.cls))
        if f.kind == "staticmethod":
            return FuncRef(f)
        if obj is None:
            return FuncRef(f)
        return Bound(f, obj)

    def ex_Call(self, node, frame):
        # super() needs the frame
        if isinstance(node.func, ast.Name) and node.func.id == "super" and not node.args:
            if frame.cls is None or frame.self_val is None:
                raise CannotEvaluate("super() outside a method")
            return ops.SuperProxy(frame.cls, frame.self_val)
        oid_before = Obj._ids
        callee = self.eval(node.func, frame)
        args = []
        for a in node.args:
            if isinstance(a, ast.Starred):
                v = self.eval(a.value, frame)
                args.extend(ops.iterate(self, v, a))
            else:
                args.append(self.eval(a, frame))
        kwargs = {}
        for k in node.keywords:
            if k.arg is None:
                v = self.eval(k.value, frame)
                if not isinstance(v, dict):
                    raise CannotEvaluate("** of non-dict")
                for kk, vv in v.items():
                    kwargs[str(kk.value) if hasattr(kk, "value") and not isinstance(kk, str) else kk] = vv
            else:
                kwargs[k.arg] = self.eval(k.value, frame)
        self.cur_frame = frame
        recv_fresh = isinstance(node.func, ast.Attribute) and isinstance(node.func.value, ast.Call) and \
            isinstance(callee, Bound) and isinstance(callee.recv, Obj) and callee.recv.oid > oid_before
        self.event("call", callee=callee, args=args, kwargs=kwargs, node=node,
                   func=frame.func.short if frame.func else None)
        if recv_fresh and isinstance(callee, Bound) and isinstance(callee.recv, Obj) and \
                any(is_abstract(a) or isinstance(a, list) for a in args) and not ops.contains_symbolic(args):
            res = self._summarised_call(callee, args, kwargs, node)
        else:
            res = self.call(callee, args, kwargs, node)
        self.cur_frame = frame
        return res

    def _summarised_call(self, callee, args, kwargs, node):
        """Call on a freshly built receiver: explore the callee on its own, fork only over its
        distinct outcomes (the receiver cannot be observed afterwards)."""
        sub = SubRun(self)
        outs = sub.run(lambda: self.call(callee, args, kwargs, node), keep_events=True)
        rets, excs = [], {}
        for o in outs:
            if o.kind == "return":
                if not any(_same(o.value, r) for r in rets):
                    rets.append(o.value)
            elif o.kind == "raise":
                excs.setdefault(o.value.name, o.value)
        concrete = [r for r in rets if not is_abstract(r)]
        options = []
        if len(concrete) == len(rets) and len(rets) <= 4:
            options = [("ret", r) for r in rets]
        elif rets:
            options = [("ret", join_values(rets))]
        options += [("exc", e) for _, e in sorted(excs.items())]
        if not options:
            raise Infeasible()
        pick = options[self.choose(len(options), "summarised outcome")]
        if pick[0] == "exc":
            raise Raised(pick[1])
        return pick[1]

    def ex_BinOp(self, node, frame):
        l = self.eval(node.left, frame)
        r = self.eval(node.right, frame)
        v = ops.binop(self, type(node.op).__name__, l, r, node)
        if isinstance(node.op, ast.Mod) and isinstance(v, (VSet, Interval)) and frame.comp_depth == 0 \
                and self.no_split == 0 and isinstance(r, int):
            vals = sorted(v.vals) if isinstance(v, VSet) else list(range(v.lo, v.hi + 1))
            if 1 < len(vals) <= 128:
                self.stats["splits"] += 1
                v = vals[self.choose(len(vals), "mod split")]
        return v

    def ex_UnaryOp(self, node, frame):
        v = self.eval(node.operand, frame)
        if isinstance(node.op, ast.Not):
            t = ops.truth_of(v)
            if t is not None:
                return not t
            if isinstance(v, Sym) and v.kind == "not":
                return v.args[0]
            if isinstance(v, (Sym, SStr)):
                return Sym("not", v if isinstance(v, Sym) else Sym("nonempty", v))
            return not self.truth(v, node)
        if isinstance(node.op, ast.USub):
            return ops.binop(self, "Sub", 0, v, node)
        if isinstance(node.op, ast.UAdd):
            return v
        raise CannotEvaluate("unary op")

    def ex_BoolOp(self, node, frame):
        is_and = isinstance(node.op, ast.And)
        v = None
        for i, e in enumerate(node.values):
            v = self.eval(e, frame)
            if i == len(node.values) - 1:
                return v
            t = self.truth(v, e)
            if is_and and not t:
                return v
            if not is_and and t:
                return v
        return v

    def ex_Compare(self, node, frame):
        left = self.eval(node.left, frame)
        result = True
        for op, comp in zip(node.ops, node.comparators):
            right = self.eval(comp, frame)
            opname = type(op).__name__
            self.event("compare", op=opname, left=left, right=right, node=node,
                       func=frame.func.short if frame.func else None)
            result = ops.compare(self, opname, left, right, node)
            if len(node.ops) == 1:
                return result
            if not self.truth(result, node):
                return False
            left = right
        return result

    def ex_IfExp(self, node, frame):
        if self.eval_cond(node.test, frame):
            return self.eval(node.body, frame)
        return self.eval(node.orelse, frame)

    def ex_NamedExpr(self, node, frame):
        v = self.eval(node.value, frame)
        self.assign(node.target, v, frame)
        return v

    def ex_Tuple(self, node, frame):
        return tuple(self._elts(node.elts, frame))

    def ex_List(self, node, frame):
        return list(self._elts(node.elts, frame))

    def ex_Set(self, node, frame):
        vals = self._elts(node.elts, frame)
        if any(is_abstract(v) for v in vals):
            raise CannotEvaluate("set of abstract values")
        return frozenset(vals)

    def _elts(self, elts, frame):
        out = []
        for e in elts:
            if isinstance(e, ast.Starred):
                out.extend(ops.iterate(self, self.eval(e.value, frame), e))
            else:
                out.append(self.eval(e, frame))
        return out

    def ex_Dict(self, node, frame):
        d = {}
        for k, v in zip(node.keys, node.values):
            if k is None:
                src = self.eval(v, frame)
                if not isinstance(src, dict):
                    raise CannotEvaluate("** of non-dict in dict display")
                d.update(src)
            else:
                kk = self.eval(k, frame)
                if is_abstract(kk):
                    raise CannotEvaluate("abstract dict key")
                d[kk] = self.eval(v, frame)
        return d

    def ex_Subscript(self, node, frame):
        base = self.eval(node.value, frame)
        if isinstance(node.slice, ast.Slice):
            lo = self.eval(node.slice.lower, frame) if node.slice.lower is not None else None
            hi = self.eval(node.slice.upper, frame) if node.slice.upper is not None else None
            step = self.eval(node.slice.step, frame) if node.slice.step is not None else None
            return ops.slice_value(self, base, lo, hi, step, node)
        idx = self.eval(node.slice, frame)
        return ops.subscript(self, base, idx, node)

    def ex_JoinedStr(self, node, frame):
        parts = []
        for v in node.values:
            if isinstance(v, ast.Constant):
                parts.append(v.value)
            else:
                val = self.eval(v.value, frame)
                spec = None
                if v.format_spec is not None:
                    spec = self.eval(v.format_spec, frame)
                    if is_abstract(spec):
                        raise CannotEvaluate("abstract format spec")
                parts.append(ops.format_value(self, val, v.conversion, spec, node))
        return ops.concat_strs(self, parts, node)

    def ex_Lambda(self, node, frame):
        fn = ast.FunctionDef(name="<lambda>", args=node.args, body=[ast.Return(value=node.body)],
                             decorator_list=[], lineno=node.lineno, col_offset=node.col_offset)
        ast.fix_missing_locations(fn)
        return FuncRef(Func(frame.module, fn, cls=None, outer=frame.func), closure=frame)

    def _comp(self, node, frame, emit):
        sub = Frame(frame.func, frame.module, {}, cls=frame.cls, self_val=frame.self_val, closure=frame)
        sub.comp_depth = frame.comp_depth + 1

        def rec(i):
            if i == len(node.generators):
                emit(sub)
                return
            g = node.generators[i]
            src = self.eval(g.iter, sub if i else frame)
            if isinstance(src, ABag):
                raise _BagIteration(src, g)
            if isinstance(src, libmodel_EnumBag()):
                raise _BagIteration(src.bag, g, enum_start=src.start)
            if isinstance(src, ops.ZipVal):
                bags = [q for q in src.seqs if isinstance(ops.strval(q), ABag)]
                if len(bags) == 1 and all(isinstance(q, CycleVal) or q is bags[0] for q in src.seqs):
                    # zip(cycle(...), <string of unknown length>): one abstract element - the character set paired with any item of the cycle
                    raise _BagIteration(ops.strval(bags[0]), g, zipped=[None if q is bags[0] else q for q in src.seqs])
            for x in ops.iterate(self, src, g.iter):
                self.assign(g.target, x, sub)
                if all(self.eval_cond(c, sub) for c in g.ifs):
                    rec(i + 1)

        rec(0)

    def ex_ListComp(self, node, frame):
        out = []
        self._comp(node, frame, lambda f: out.append(self.eval(node.elt, f)))
        return out

    def ex_GeneratorExp(self, node, frame):
        try:
            return self.ex_ListComp(node, frame)
        except _BagIteration as b:
            # element expression evaluated once with the loop variable bound to the bag's charset
            if len(node.generators) != 1 or node.generators[0].ifs:
                raise CannotEvaluate("comprehension over a string of unknown length")
            sub = Frame(frame.func, frame.module, {}, cls=frame.cls, self_val=frame.self_val, closure=frame)
            sub.comp_depth = frame.comp_depth + 1
            if b.zipped is not None:
                parts = tuple(b.bag.cs if q is None else join_values(list(q.items)) for q in b.zipped)
                self.assign(node.generators[0].target, parts, sub)
            elif b.enum_start is None:
                self.assign(node.generators[0].target, b.bag.cs, sub)
            else:
                idx = Interval(b.enum_start, b.enum_start + max(b.bag.hi - 1, 0)) if b.bag.hi > 1 else b.enum_start
                self.assign(node.generators[0].target, (idx, b.bag.cs), sub)
            return ops.BagOf(b.bag.lo, b.bag.hi, self.eval(node.elt, sub))

    def ex_SetComp(self, node, frame):
        out = []
        self._comp(node, frame, lambda f: out.append(self.eval(node.elt, f)))
        if any(is_abstract(v) for v in out):
            raise CannotEvaluate("set comprehension of abstract values")
        return frozenset(out)

    def ex_DictComp(self, node, frame):
        out = {}

        def emit(f):
            k = self.eval(node.key, f)
            if is_abstract(k):
                raise CannotEvaluate("abstract dict key")
            out[k] = self.eval(node.value, f)

        self._comp(node, frame, emit)
        return out

    def ex_Starred(self, node, frame):
        raise CannotEvaluate("starred expression")

    def ex_Slice(self, node, frame):
        raise CannotEvaluate("bare slice")


class _BagIteration(Exception):
    def __init__(self, bag, gen, enum_start=None, zipped=None):
        self.bag = bag
        self.gen = gen
        self.enum_start = enum_start
        self.zipped = zipped


def libmodel_EnumBag():
    from .libmodel import EnumBag
    return EnumBag


_IN_PROGRESS = object()
_MISSING = object()


def _as_load(target):
    t = ast.parse(ast.unparse(target), mode="eval").body
    ast.copy_location(t, target)
    for n in ast.walk(t):
        ast.copy_location(n, target)
    return t


def _refinable(node):
    if isinstance(node, ast.Name):
        return True
    return isinstance(node, ast.Attribute) and isinstance(node.value, ast.Name)


def _same(a, b):
    try:
        return type(a) is type(b) and a == b
    except Exception:
        return a is b


class SubRun:
    """Nested exploration inside the current path (the outer trace is untouched)."""

    def __init__(self, it):
        self.it = it

    def run(self, thunk, keep_events=False):
        it = self.it
        saved = (it.prefix, it.trace, it.events, it.assumptions, getattr(it, "cur_frame", None), it.depth)
        saved_log = getattr(it, "undo_log", None)
        saved_sites = it.trace_sites
        results = []
        stack = [[]]
        collected = []
        try:
            while stack:
                prefix = stack.pop()
                if len(results) > it.max_paths:
                    raise PathLimit("nested exploration too large")
                it.prefix, it.trace, it.events, it.assumptions = prefix, [], [], []
                it.trace_sites = []
                it.depth = saved[5]
                it.cur_frame = saved[4]
                it.undo_log = []
                it._journal_push()
                try:
                    try:
                        out = Outcome("return", thunk())
                    except Raised as r:
                        out = Outcome("raise", r.exc)
                    except Infeasible:
                        out = Outcome("infeasible")
                finally:
                    it._journal_pop()
                    for obj, attr, old in reversed(it.undo_log):
                        if attr == "\0strval":
                            obj.strval = old
                            continue
                        if old is _MISSING:
                            obj.attrs.pop(attr, None)
                        else:
                            obj.attrs[attr] = old
                out.events = it.events
                collected.extend(it.events)
                results.append(out)
                for i in range(len(prefix), len(it.trace)):
                    chosen, n = it.trace[i]
                    for alt in range(chosen + 1, n):
                        stack.append([c for c, _ in it.trace[:i]] + [alt])
        finally:
            it.prefix, it.trace, it.events, it.assumptions, it.cur_frame, it.depth = saved
            it.undo_log = saved_log
            it.trace_sites = saved_sites
        if keep_events:
            for e in collected:
                e = dict(e)
                e["nested"] = True
                it.events.append(e)
                if it.watch:
                    it.watch(e)
        return results
