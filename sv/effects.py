"""E6 — who writes what, when: call graph, phase classification, write effects (all from the AST)."""
from __future__ import annotations

import ast

from .srcmodel import AnalysisError, Class, Func, Module, dotted, nested_funcs

MUTATORS = {"append", "extend", "insert", "pop", "popitem", "remove", "clear", "sort", "reverse", "update", "setdefault",
            "add", "discard", "__setitem__", "__delitem__"}


class Effect:
    def __init__(self, kind, func, node, target, detail=""):
        self.kind = kind          # 'global-store' | 'module-mutation' | 'self-store' | 'param-mutation' | 'tainted-mutation'
        self.func = func
        self.node = node
        self.target = target
        self.detail = detail

    @property
    def where(self):
        return f"{self.func.module.relpath}:{self.node.lineno}"

    def __repr__(self):
        return f"<{self.kind} {self.target} in {self.func.short} at {self.where}>"


class Effects:
    def __init__(self, program):
        self.program = program
        self.funcs = []          # all Func incl. nested
        self.by_node = {}
        self._collect()
        self.methods_by_name = {}
        self.props_by_name = {}
        for f in self.funcs:
            if f.cls is not None:
                (self.props_by_name if f.kind == "property" else self.methods_by_name).setdefault(f.name, []).append(f)
        self.calls = {id(f): self._callees(f) for f in self.funcs}
        self.subclasses = {}
        for c in program.all_classes():
            for b in c.mro(program)[1:]:
                self.subclasses.setdefault(id(b), []).append(c)

    # ------------------------------------------------------------------ collection
    def _collect(self):
        prog = self.program

        def add(f):
            self.funcs.append(f)
            self.by_node[id(f.node)] = f
            for nf in nested_funcs(f).values():
                # only direct children are returned with outer = f; deeper ones are reached recursively
                if self._direct_child(f.node, nf.node):
                    add(nf)

        for m in prog.modules.values():
            for d in m.defs.values():
                if isinstance(d, Func):
                    add(d)
        for c in prog.all_classes():
            for f in c.methods.values():
                add(f)

    @staticmethod
    def _direct_child(outer_node, inner_node):
        for st in ast.walk(outer_node):
            if st is outer_node:
                continue
            if isinstance(st, (ast.FunctionDef, ast.AsyncFunctionDef, ast.Lambda)):
                if st is inner_node:
                    # direct iff no other function def lies between
                    return Effects._parent_func(outer_node, inner_node) is outer_node
        return False

    @staticmethod
    def _parent_func(root, target):
        parent = {}
        for n in ast.walk(root):
            for ch in ast.iter_child_nodes(n):
                parent[id(ch)] = n
        cur = parent.get(id(target))
        while cur is not None and not isinstance(cur, (ast.FunctionDef, ast.AsyncFunctionDef)):
            cur = parent.get(id(cur))
        return cur

    def own_nodes(self, f):
        """AST nodes of f excluding nested function bodies."""
        out = []
        stack = list(ast.iter_child_nodes(f.node))
        while stack:
            n = stack.pop()
            if isinstance(n, (ast.FunctionDef, ast.AsyncFunctionDef)):
                continue
            out.append(n)
            stack.extend(ast.iter_child_nodes(n))
        return out

    # ------------------------------------------------------------------ call graph
    def _callees(self, f):
        prog = self.program
        out = set()
        selfname = f.params()[0] if f.cls is not None and f.kind != "staticmethod" and f.params() else None
        local_defs = {nf.name: nf for nf in self.funcs if nf.outer is f}
        for n in self.own_nodes(f):
            if isinstance(n, ast.Call):
                fn = n.func
                if isinstance(fn, ast.Name):
                    if fn.id in local_defs:
                        out.add(local_defs[fn.id])
                        continue
                    d = prog.resolve_name(f.module, fn.id)
                    self._add_def(out, d)
                elif isinstance(fn, ast.Attribute):
                    d = prog.resolve_expr(f.module, fn)
                    if isinstance(d, (Func, Class)):
                        self._add_def(out, d)
                        continue
                    recv = fn.value
                    if isinstance(recv, ast.Name) and recv.id == selfname and f.cls is not None:
                        out.update(self._related_methods(f.cls, fn.attr))
                    elif isinstance(recv, ast.Call) and isinstance(recv.func, ast.Name) and recv.func.id == "super" and f.cls is not None:
                        out.update(self._related_methods(f.cls, fn.attr))
                    else:
                        out.update(self.methods_by_name.get(fn.attr, []))
                # passing a function as an argument counts as a possible call
                for a in list(n.args) + [k.value for k in n.keywords]:
                    if isinstance(a, (ast.Name, ast.Attribute)):
                        d = prog.resolve_expr(f.module, a) if not (isinstance(a, ast.Name) and a.id in local_defs) else local_defs[a.id]
                        if isinstance(d, Func):
                            out.add(d)
                        elif isinstance(a, ast.Attribute) and isinstance(a.value, ast.Name) and a.value.id == selfname and f.cls is not None:
                            out.update(self._related_methods(f.cls, a.attr))
            elif isinstance(n, ast.Attribute) and isinstance(n.ctx, ast.Load):
                # property loads are calls
                if n.attr in self.props_by_name:
                    recv = n.value
                    if isinstance(recv, ast.Name) and recv.id == selfname and f.cls is not None:
                        rel = [p for p in self._related(f.cls, n.attr, self.props_by_name)]
                        out.update(rel)
                    else:
                        out.update(self.props_by_name[n.attr])
        return out

    def _add_def(self, out, d):
        prog = self.program
        if isinstance(d, Func):
            out.add(d)
        elif isinstance(d, Class):
            for nm in ("__new__", "__init__"):
                r = d.lookup(prog, nm)
                if r is not None and r[1] == "method":
                    out.add(r[2])

    def _related(self, cls, name, table):
        prog = self.program
        res = []
        for f in table.get(name, []):
            c = f.cls
            if c in cls.mro(prog) or cls in c.mro(prog):
                res.append(f)
        return res

    def _related_methods(self, cls, name):
        return self._related(cls, name, self.methods_by_name) + self._related(cls, name, self.props_by_name)

    def reachable(self, roots, skip_edge=None):
        seen = {}
        stack = [(r, None) for r in roots]
        while stack:
            f, via = stack.pop()
            if id(f) in seen:
                continue
            seen[id(f)] = (f, via)
            for g in self.calls.get(id(f), ()):
                if skip_edge is not None and skip_edge(f, g):
                    continue
                if id(g) not in seen:
                    stack.append((g, f))
        return seen

    def path_to(self, seen, f):
        chain = []
        cur = f
        while cur is not None:
            chain.append(cur.short)
            cur = seen[id(cur)][1]
        return " <- ".join(chain)

    # ------------------------------------------------------------------ phases
    def import_time_roots(self):
        """Functions called from module-level statements (incl. decorator applications)."""
        prog = self.program
        roots = set()
        for m in prog.modules.values():
            nodes = []
            for st in m.toplevel:
                nodes.extend(ast.walk(st))
            for d in m.defs.values():
                if isinstance(d, tuple) and d[0] == "const":
                    nodes.extend(ast.walk(d[1]))
            for c in prog.all_classes():
                if c.module is m:
                    for dec in c.decorators:
                        nodes.extend(ast.walk(dec))
            for n in nodes:
                if isinstance(n, ast.Call):
                    d = prog.resolve_expr(m, n.func) if isinstance(n.func, (ast.Name, ast.Attribute)) else None
                    if isinstance(d, Func):
                        roots.add(d)
                        for nf in self.funcs:
                            if nf.outer is d:
                                roots.add(nf)  # closures returned by decorators factories run at import too
                    elif isinstance(d, tuple) and d[0] == "modconst":
                        # alias such as `register = checksum.register("DE")`
                        val = d[1].defs[d[2]][1]
                        if isinstance(val, ast.Call):
                            dd = prog.resolve_expr(d[1], val.func)
                            if isinstance(dd, Func):
                                roots.add(dd)
                                for nf in self.funcs:
                                    if nf.outer is dd:
                                        roots.add(nf)
        return roots

    def runtime_roots(self):
        prog = self.program
        roots = []
        for q in ("schwifty.iban.IBAN", "schwifty.bic.BIC", "schwifty.bban.BBAN"):
            c = prog.get(q)
            for k in c.mro(prog):
                for f in k.methods.values():
                    if "pydantic" in f.name:
                        continue
                    roots.append(f)
        algo = prog.get("schwifty.checksum.Algorithm")
        for c in prog.all_classes():
            if algo in c.mro(prog):
                for nm in ("compute", "validate"):
                    if nm in c.methods:
                        roots.append(c.methods[nm])
        for q in ("schwifty.registry.get", "schwifty.registry.has", "schwifty.registry.merge_dicts",
                  "schwifty.iban.convert_bban_spec_to_regex", "schwifty.common.clean", "schwifty.bban.compute_national_checksum"):
            f = prog.find(q)
            if isinstance(f, Func):
                roots.append(f)
        return roots

    # ------------------------------------------------------------------ effects
    def direct_effects(self, f):
        prog = self.program
        out = []
        params = f.params()
        a = f.node.args
        allparams = set(params) | {x.arg for x in a.kwonlyargs} | ({a.vararg.arg} if a.vararg else set()) | ({a.kwarg.arg} if a.kwarg else set())
        selfname = params[0] if f.cls is not None and f.kind not in ("staticmethod",) and params else None
        nodes = self.own_nodes(f)
        local_assigned = set()
        globals_decl = set()
        for n in nodes:
            if isinstance(n, ast.Global):
                globals_decl.update(n.names)
            if isinstance(n, ast.Name) and isinstance(n.ctx, ast.Store):
                local_assigned.add(n.id)
        tainted = self._registry_tainted(f, nodes)
        # parameters with a mutable default: one object shared by all calls
        mutable_defaults = set()
        pos_params = [x.arg for x in a.posonlyargs + a.args]
        for pname, d in list(zip(pos_params[len(pos_params) - len(a.defaults):], a.defaults)) + \
                [(x.arg, d) for x, d in zip(a.kwonlyargs, a.kw_defaults) if d is not None]:
            if isinstance(d, (ast.Dict, ast.List, ast.Set, ast.ListComp, ast.DictComp, ast.SetComp)) or \
                    (isinstance(d, ast.Call) and (dotted(d.func) or "").split(".")[-1] in ("dict", "list", "set", "defaultdict", "cycle", "deque", "Counter", "OrderedDict", "iter")):
                mutable_defaults.add(pname)
        for n in nodes:
            if isinstance(n, ast.Return) and isinstance(n.value, ast.Name) and n.value.id in mutable_defaults:
                out.append(Effect("default-mutation", f, n, n.value.id, "the shared default object is handed out to callers"))

        def is_module_name(name):
            if name in allparams or (name in local_assigned and name not in globals_decl):
                return False
            d = prog.resolve_name(f.module, name)
            return isinstance(d, tuple) and d[0] == "modconst"

        for n in nodes:
            if isinstance(n, ast.Name) and isinstance(n.ctx, ast.Store) and n.id in globals_decl:
                out.append(Effect("global-store", f, n, n.id))
            targets = []
            if isinstance(n, ast.Assign):
                targets = n.targets
            elif isinstance(n, (ast.AugAssign, ast.AnnAssign)):
                targets = [n.target]
            elif isinstance(n, ast.Delete):
                targets = n.targets
            for t in targets:
                for x in ast.walk(t):
                    if isinstance(x, ast.Attribute) and isinstance(x.ctx, (ast.Store, ast.Del)):
                        base = x.value
                        if isinstance(base, ast.Name) and base.id == selfname:
                            out.append(Effect("self-store", f, x, x.attr))
                        elif isinstance(base, ast.Name) and base.id in allparams:
                            out.append(Effect("param-mutation", f, x, f"{base.id}.{x.attr}"))
                        elif isinstance(base, ast.Name) and is_module_name(base.id):
                            out.append(Effect("module-mutation", f, x, f"{base.id}.{x.attr}"))
                    if isinstance(x, ast.Subscript) and isinstance(x.ctx, (ast.Store, ast.Del)):
                        root = _root_name(x.value)
                        if root is None:
                            continue
                        if root in tainted:
                            out.append(Effect("tainted-mutation", f, x, root, "item store into data obtained from registry.get"))
                        elif root == selfname:
                            out.append(Effect("self-store", f, x, ast.unparse(x.value)))
                        elif root in mutable_defaults:
                            out.append(Effect("default-mutation", f, x, root, "item store into a mutable default argument"))
                        elif root in allparams:
                            out.append(Effect("param-mutation", f, x, root))
                        elif is_module_name(root):
                            out.append(Effect("module-mutation", f, x, root))
            if isinstance(n, ast.Call) and isinstance(n.func, ast.Attribute) and n.func.attr in MUTATORS:
                root = _root_name(n.func.value)
                if root is None:
                    continue
                if root in tainted:
                    out.append(Effect("tainted-mutation", f, n, root, f".{n.func.attr}() on data obtained from registry.get"))
                elif root == selfname and isinstance(n.func.value, ast.Attribute):
                    out.append(Effect("self-store", f, n, ast.unparse(n.func.value), f".{n.func.attr}()"))
                elif root in mutable_defaults:
                    out.append(Effect("default-mutation", f, n, root, f".{n.func.attr}() on a mutable default argument"))
                elif root in allparams and root != selfname:
                    out.append(Effect("param-mutation", f, n, root, f".{n.func.attr}()"))
                elif is_module_name(root):
                    out.append(Effect("module-mutation", f, n, root, f".{n.func.attr}()"))
        return out

    def returns_fresh(self, g, _stack=()):
        """Every value g returns is a container g built itself (a literal, comprehension, list()/dict()/sorted() result, a local that
        is only ever bound to such values, or the result of a package function with the same property): the caller may store into
        it without touching shared data."""
        cache = self.__dict__.setdefault("_fresh_cache", {})
        if id(g) in cache:
            return cache[id(g)]
        if id(g) in _stack:
            return False
        nodes = self.own_nodes(g)
        params = set(g.params()) | {x.arg for x in g.node.args.kwonlyargs}
        binds = {}
        for n in nodes:
            if isinstance(n, ast.Assign):
                for t in n.targets:
                    for x in _bound_names(t):
                        binds.setdefault(x, []).append(n.value if isinstance(t, ast.Name) else None)
            elif isinstance(n, (ast.AnnAssign, ast.NamedExpr)) and isinstance(n.target, ast.Name):
                binds.setdefault(n.target.id, []).append(n.value)
            elif isinstance(n, (ast.For, ast.comprehension)):
                for x in _bound_names(n.target):
                    binds.setdefault(x, []).append(None)
            elif isinstance(n, ast.AugAssign) and isinstance(n.target, ast.Name):
                binds.setdefault(n.target.id, []).append(None)

        def ok(v, depth=0):
            if v is None or _fresh_expr(v):
                return True
            if isinstance(v, ast.Call) and isinstance(v.func, (ast.Name, ast.Attribute)):
                if isinstance(v.func, ast.Name) and v.func.id == "cls" and g.kind == "classmethod":
                    return True   # a new instance
                d = self.program.resolve_expr(g.module, v.func)
                if isinstance(d, Class):
                    return True   # a new instance
                if isinstance(d, Func):
                    return self.returns_fresh(d, _stack + (id(g),))
                if isinstance(v.func, ast.Attribute) and isinstance(v.func.value, ast.Name) and v.func.value.id == "cls" and g.cls is not None:
                    r = g.cls.lookup(self.program, v.func.attr)
                    if r is not None and r[1] == "method":
                        return self.returns_fresh(r[2], _stack + (id(g),))
                return False
            if isinstance(v, ast.Name) and v.id not in params and depth < 3:
                vals = binds.get(v.id)
                return bool(vals) and all(b is not None and ok(b, depth + 1) for b in vals)
            return False

        res = all(ok(n.value) for n in nodes if isinstance(n, ast.Return))
        cache[id(g)] = res
        return res

    def registry_sources(self):
        """Functions that hand out bundled registry data: registry.get and, to a fixpoint, every module-level function or property
        that returns (part of) what such a function returned without building a container of its own (today _get_bban_spec and the
        `spec` properties - found by what they return, not by their names)."""
        if getattr(self, "_sources", None) is not None:
            return self._sources
        sources = {"schwifty.registry.get"}
        self._sources = sources
        changed = True
        rounds = 0
        while changed and rounds < 6:
            changed = False
            rounds += 1
            for f in self.funcs:
                if f.qualname in sources or f.qualname.startswith("schwifty.registry."):
                    continue
                nodes = self.own_nodes(f)
                rets = [n.value for n in nodes if isinstance(n, ast.Return) and n.value is not None]
                if not rets:
                    continue
                tainted = self._registry_tainted(f, nodes)
                for v in rets:
                    if _fresh_expr(v):
                        continue
                    root = v
                    while isinstance(root, (ast.Subscript, ast.Attribute)):
                        root = root.value
                    hit = isinstance(root, ast.Name) and root.id in tainted
                    if not hit and isinstance(root, ast.Call) and isinstance(root.func, (ast.Name, ast.Attribute)):
                        d = self.program.resolve_expr(f.module, root.func)
                        hit = isinstance(d, Func) and d.qualname in sources
                    if hit:
                        sources.add(f.qualname)
                        changed = True
                        break
        return sources

    def _registry_tainted(self, f, nodes):
        """Local names bound (transitively) to data handed out by registry.get / the spec accessors."""
        prog = self.program
        sources = self._sources if getattr(self, "_sources", None) is not None else self.registry_sources()
        tainted = set()

        def is_source(expr):
            for n in ast.walk(expr):
                if isinstance(n, ast.Call):
                    d = prog.resolve_expr(f.module, n.func) if isinstance(n.func, (ast.Name, ast.Attribute)) else None
                    if isinstance(d, Func) and d.qualname in sources:
                        return True
                    # builders of fresh containers cut the taint
                if isinstance(n, ast.Attribute) and isinstance(n.ctx, ast.Load) and \
                        (n.attr == "spec" or any(p.qualname in sources for p in self.props_by_name.get(n.attr, ()))):
                    return True
            return False

        def fresh(expr):
            # the outermost operation builds a new container: sorted(...), list(...), dict(...), {..}, [..], comprehension
            if _fresh_expr(expr):
                return True
            # ... or is a call of a package function that only ever returns containers it has built itself
            if isinstance(expr, ast.Call) and isinstance(expr.func, (ast.Name, ast.Attribute)):
                d = prog.resolve_expr(f.module, expr.func)
                if isinstance(d, Func) and d.qualname not in sources and self.returns_fresh(d):
                    return True
                if isinstance(d, Class):
                    return True
                fn = expr.func
                if isinstance(fn, ast.Name) and fn.id == "cls" and f.kind == "classmethod":
                    return True
                if isinstance(fn, ast.Attribute) and isinstance(fn.value, ast.Name) and fn.value.id in ("cls", "self") and f.cls is not None:
                    r = f.cls.lookup(prog, fn.attr)
                    if r is not None and r[1] == "method" and r[2].qualname not in sources and r[2].kind != "property" and self.returns_fresh(r[2]):
                        return True
            return False

        changed = True
        assigns = [n for n in nodes if isinstance(n, (ast.Assign, ast.AnnAssign, ast.NamedExpr, ast.For))]
        while changed:
            changed = False
            for n in assigns:
                if isinstance(n, ast.For):
                    value, targets = n.iter, [n.target]
                elif isinstance(n, ast.Assign):
                    value, targets = n.value, n.targets
                elif isinstance(n, ast.NamedExpr):
                    value, targets = n.value, [n.target]
                else:
                    value, targets = n.value, [n.target]
                if value is None or fresh(value):
                    continue
                src = is_source(value) or any(isinstance(x, ast.Name) and x.id in tainted for x in ast.walk(value))
                if src:
                    for t in targets:
                        for x in _bound_names(t):
                            if x not in tainted:
                                tainted.add(x)
                                changed = True
        return tainted


def _fresh_expr(expr):
    if isinstance(expr, (ast.List, ast.Dict, ast.ListComp, ast.DictComp, ast.SetComp, ast.Tuple, ast.Set, ast.Constant, ast.JoinedStr)):
        return True
    if isinstance(expr, ast.Call) and isinstance(expr.func, ast.Name) and expr.func.id in ("sorted", "list", "dict", "tuple", "set", "frozenset", "str", "len", "int"):
        return True
    return False


def _bound_names(target):
    """Names (re)bound by an assignment target: plain names and tuple elements, not subscript / attribute bases."""
    if isinstance(target, ast.Name):
        return [target.id]
    if isinstance(target, (ast.Tuple, ast.List)):
        out = []
        for e in target.elts:
            out.extend(_bound_names(e))
        return out
    if isinstance(target, ast.Starred):
        return _bound_names(target.value)
    return []


def _root_name(expr):
    while isinstance(expr, (ast.Attribute, ast.Subscript)):
        expr = expr.value
    if isinstance(expr, ast.Call) and isinstance(expr.func, ast.Attribute):
        return _root_name(expr.func.value)
    return expr.id if isinstance(expr, ast.Name) else None


def interprocedural_taint(eff):
    """Parameters that can receive data handed out by registry.get: {id(func): set(param names)}."""
    prog = eff.program
    ptaint = {id(f): set() for f in eff.funcs}
    changed = True
    rounds = 0
    while changed and rounds < 20:
        changed = False
        rounds += 1
        for f in eff.funcs:
            nodes = eff.own_nodes(f)
            tainted = eff._registry_tainted(f, nodes) | ptaint[id(f)]
            # propagate through local assignments from tainted params
            grew = True
            while grew:
                grew = False
                for n in nodes:
                    if isinstance(n, ast.Assign) and any(isinstance(x, ast.Name) and x.id in tainted for x in ast.walk(n.value)):
                        if isinstance(n.value, (ast.List, ast.Dict, ast.ListComp, ast.DictComp, ast.JoinedStr)):
                            continue
                        for t in n.targets:
                            for x in _bound_names(t):
                                if x not in tainted:
                                    tainted.add(x)
                                    grew = True
            for n in nodes:
                if not isinstance(n, ast.Call):
                    continue
                callees = []
                d = prog.resolve_expr(f.module, n.func) if isinstance(n.func, (ast.Name, ast.Attribute)) else None
                if isinstance(d, Func):
                    callees = [(d, 0)]
                elif isinstance(n.func, ast.Attribute):
                    callees = [(g, 1) for g in eff.methods_by_name.get(n.func.attr, [])]
                for g, off in callees:
                    params = g.params()
                    for i, a in enumerate(n.args):
                        if i + off < len(params) and any(isinstance(x, ast.Name) and x.id in tainted for x in ast.walk(a)):
                            if params[i + off] not in ptaint[id(g)]:
                                ptaint[id(g)].add(params[i + off])
                                changed = True
                    for k in n.keywords:
                        if k.arg in params and any(isinstance(x, ast.Name) and x.id in tainted for x in ast.walk(k.value)):
                            if k.arg not in ptaint[id(g)]:
                                ptaint[id(g)].add(k.arg)
                                changed = True
    return ptaint
