"""Fork-based parallel map for per-country / per-method work inside one check.

Workers inherit the parsed program, facts and registry through fork (nothing is pickled on the way in); results must be plain
picklable data.  Order of results = order of items, so reports are identical to a sequential run.  SV_JOBS=1 (or a platform
without fork) runs sequentially; an exception in a worker is re-raised in the parent as the same AnalysisError / CannotEvaluate text."""
from __future__ import annotations

import os
import sys

_STATE = {}


def _run(i):
    f, items = _STATE["f"], _STATE["items"]
    try:
        return ("ok", f(items[i]))
    except BaseException as e:  # noqa: BLE001 - transported to the parent
        return ("err", type(e).__name__, str(e))


def _jobs(jobs):
    return jobs or int(os.environ.get("SV_JOBS", "0") or 0) or min(16, os.cpu_count() or 1)


def _collect(res):
    from .srcmodel import AnalysisError
    out = []
    for r in res:
        if r[0] == "err":
            if r[1] == "AnalysisError":
                raise AnalysisError(r[2])
            raise AnalysisError(f"{r[1]}: {r[2]}")
        out.append(r[1])
    return out


def pmap(f, items, jobs=None):
    return pmap_async(f, items, jobs).get()


class _Done:
    def __init__(self, values):
        self.values = values

    def get(self):
        return self.values


_POOLS = []


def shutdown():
    """Terminate worker pools that are still pending (a check that gives up early must not leave workers behind)."""
    while _POOLS:
        pool = _POOLS.pop()
        try:
            pool.terminate()
            pool.join()
        except Exception:  # noqa: BLE001
            pass


class _Pending:
    def __init__(self, pool, handle):
        self.pool, self.handle = pool, handle
        _POOLS.append(pool)

    def get(self):
        try:
            res = self.handle.get()
        finally:
            self.pool.terminate()
            self.pool.join()
            if self.pool in _POOLS:
                _POOLS.remove(self.pool)
        return _collect(res)


def pmap_async(f, items, jobs=None):
    """Start the map in forked workers and return a handle; .get() waits.  The parent may do other work in between (the workers
    were forked before it, so they do not see it).  Only one asynchronous map at a time."""
    items = list(items)
    jobs = _jobs(jobs)
    if jobs <= 1 or len(items) <= 1 or not hasattr(os, "fork"):
        return _Done([f(x) for x in items])
    import multiprocessing as mp
    ctx = mp.get_context("fork")
    _STATE["f"], _STATE["items"] = f, items
    sys.stdout.flush()
    pool = ctx.Pool(min(jobs, len(items)))
    handle = pool.map_async(_run, range(len(items)), chunksize=1)
    return _Pending(pool, handle)


class Rec:
    """Stand-in for a report rule inside a forked worker: records instance() / finding() calls as plain data."""

    def __init__(self, name):
        self.name = name
        self.ops = []
        self.samples = []
        self.findings = 0

    def instance(self, desc=None, nontrivial=True, n=1):
        self.ops.append(("instance", _plain(desc), nontrivial, n))
        if desc is not None and len(self.samples) < 6:
            self.samples.append(desc)

    def finding(self, construct, message, where=None, witness=None, facts=None):
        self.findings += 1
        self.ops.append(("finding", construct, message, where, _plain(witness), _plain(facts)))


def _plain(v):
    """Reduce a description to picklable plain data."""
    if v is None or isinstance(v, (str, int, float, bool)):
        return v
    if isinstance(v, dict):
        return {(_plain(k) if not isinstance(k, (str, int)) else k): _plain(x) for k, x in v.items()}
    if isinstance(v, (list, tuple, set, frozenset)):
        return [_plain(x) for x in (sorted(v, key=repr) if isinstance(v, (set, frozenset)) else v)]
    return repr(v)


def replay(rules, recs, cap=None):
    """Apply what the workers recorded to the real rules (dict name -> RuleRun), in order.  ``cap``: at most that many findings
    per rule are reported (the same defect usually shows in every country); the rest is counted in the rule's samples."""
    for rec in recs:
        r = rules[rec[0]]
        for op in rec[1]:
            if op[0] == "instance":
                r.instance(op[1], op[2], op[3])
            elif cap is not None and r.findings >= cap:
                r.suppressed = getattr(r, "suppressed", 0) + 1
            else:
                r.finding(op[1], op[2], op[3], op[4], op[5])


def run_recorded(names, body, items, jobs=None):
    """body(item, rules) is run per item with Rec stand-ins for the named rules; returns per item [(name, ops)]."""
    return run_recorded_async(names, body, items, jobs).get()


def run_recorded_async(names, body, items, jobs=None):
    def worker(item):
        rules = {n: Rec(n) for n in names}
        extra = body(item, rules)
        return [(n, rules[n].ops) for n in names], extra
    return pmap_async(worker, items, jobs)
