"""E1 — resolved program model of the package under /repo (read as text, never imported).

Modules, import maps, classes (nested too) with C3 MRO, functions with their kind,
name resolution across the package.  Everything is derived from ``ast``.
"""
from __future__ import annotations

import ast
import os


class AnalysisError(Exception):
    """The analysis cannot decide (vanished anchor, unknown idiom, floor not met)."""


class Func:
    def __init__(self, module, node, cls=None, outer=None):
        self.module = module
        self.node = node
        self.cls = cls
        self.outer = outer  # enclosing Func for closures
        self.name = node.name
        self.kind = "function"
        self.decorators = list(node.decorator_list)
        if cls is not None:
            self.kind = "method"
        for d in node.decorator_list:
            dn = dotted(d)
            if dn == "property":
                self.kind = "property"
            elif dn == "classmethod":
                self.kind = "classmethod"
            elif dn == "staticmethod":
                self.kind = "staticmethod"
        self.is_abstract = any((dotted(d) or "").endswith("abstractmethod") for d in node.decorator_list)

    @property
    def qualname(self):
        if self.cls is not None:
            return f"{self.cls.qualname}.{self.name}"
        if self.outer is not None:
            return f"{self.outer.qualname}.<locals>.{self.name}"
        return f"{self.module.name}.{self.name}"

    @property
    def short(self):
        if self.cls is not None:
            return f"{self.cls.short}.{self.name}"
        if self.outer is not None:
            return f"{self.outer.short}.{self.name}"
        return self.name

    @property
    def where(self):
        return f"{self.module.relpath}:{self.node.lineno}"

    def params(self):
        a = self.node.args
        names = [x.arg for x in a.posonlyargs + a.args]
        return names

    def __repr__(self):
        return f"<Func {self.qualname}>"


class Class:
    def __init__(self, module, node, outer=None):
        self.module = module
        self.node = node
        self.outer = outer
        self.name = node.name
        self.attrs = {}  # name -> expr node (class-level assignments with a value)
        self.annotations = {}  # name -> annotation node (also without value)
        self.methods = {}  # name -> Func
        self.nested = {}  # name -> Class
        self.decorators = list(node.decorator_list)
        self.base_exprs = list(node.bases)
        self.bases = None  # resolved lazily: list of Class | str(external dotted)
        self._mro = None
        self.body_order = []  # (kind, name, node)
        for st in node.body:
            if isinstance(st, (ast.FunctionDef, ast.AsyncFunctionDef)):
                self.methods[st.name] = Func(module, st, cls=self)
                self.body_order.append(("method", st.name, st))
            elif isinstance(st, ast.ClassDef):
                self.nested[st.name] = Class(module, st, outer=self)
                self.body_order.append(("class", st.name, st))
            elif isinstance(st, ast.Assign):
                for t in st.targets:
                    if isinstance(t, ast.Name):
                        self.attrs[t.id] = st.value
                        self.body_order.append(("attr", t.id, st))
            elif isinstance(st, ast.AnnAssign) and isinstance(st.target, ast.Name):
                self.annotations[st.target.id] = st.annotation
                if st.value is not None:
                    self.attrs[st.target.id] = st.value
                    self.body_order.append(("attr", st.target.id, st))
            elif isinstance(st, ast.Expr) and isinstance(st.value, ast.Constant):
                pass  # docstring
            elif isinstance(st, ast.Pass):
                pass
            else:
                self.body_order.append(("stmt", None, st))

    @property
    def qualname(self):
        if self.outer is not None:
            return f"{self.outer.qualname}.{self.name}"
        return f"{self.module.name}.{self.name}"

    @property
    def short(self):
        if self.outer is not None:
            return f"{self.outer.short}.{self.name}"
        return self.name

    @property
    def where(self):
        return f"{self.module.relpath}:{self.node.lineno}"

    def resolve_bases(self, program):
        if self.bases is None:
            out = []
            for b in self.base_exprs:
                tgt = program.resolve_expr(self.module, b, cls_scope=self.outer)
                if isinstance(tgt, Class):
                    out.append(tgt)
                else:
                    out.append(dotted(b) or ast.unparse(b))
            self.bases = out
        return self.bases

    def mro(self, program):
        if self._mro is None:
            self._mro = _c3(self, program)
        return self._mro

    def is_subclass_of(self, program, other):
        return other in self.mro(program)

    def ext_bases(self, program):
        """External (non-package) base names anywhere in the MRO."""
        out = []
        for c in self.mro(program):
            for b in c.resolve_bases(program):
                if isinstance(b, str) and b not in out:
                    out.append(b)
        return out

    def lookup(self, program, name):
        """(defining Class, kind, obj) through the MRO, or None."""
        for c in self.mro(program):
            if name in c.methods:
                return c, "method", c.methods[name]
            if name in c.attrs:
                return c, "attr", c.attrs[name]
            if name in c.nested:
                return c, "class", c.nested[name]
        return None

    def lookup_after(self, program, after_cls, name):
        """super() lookup: first definition in the MRO strictly after ``after_cls``."""
        mro = self.mro(program)
        try:
            i = mro.index(after_cls)
        except ValueError:
            raise AnalysisError(f"super(): {after_cls.qualname} not in MRO of {self.qualname}")
        for c in mro[i + 1 :]:
            if name in c.methods:
                return c, "method", c.methods[name]
            if name in c.attrs:
                return c, "attr", c.attrs[name]
        return None

    def __repr__(self):
        return f"<Class {self.qualname}>"


def _c3(cls, program):
    bases = [b for b in cls.resolve_bases(program) if isinstance(b, Class)]
    seqs = [list(b.mro(program)) for b in bases] + [list(bases)]
    res = [cls]
    while True:
        seqs = [s for s in seqs if s]
        if not seqs:
            return res
        for s in seqs:
            cand = s[0]
            if not any(cand in t[1:] for t in seqs):
                break
        else:
            raise AnalysisError(f"inconsistent MRO for {cls.qualname}")
        res.append(cand)
        for s in seqs:
            if s[0] is cand:
                del s[0]


def dotted(node):
    if isinstance(node, ast.Name):
        return node.id
    if isinstance(node, ast.Attribute):
        b = dotted(node.value)
        return None if b is None else f"{b}.{node.attr}"
    if isinstance(node, ast.Call):
        return None
    return None


class Module:
    def __init__(self, program, name, path, relpath, is_pkg):
        self.program = program
        self.name = name
        self.path = path
        self.relpath = relpath
        self.is_pkg = is_pkg
        if relpath in getattr(program, "overrides", {}):
            self.source = program.overrides[relpath]
        else:
            with open(path, encoding="utf-8") as fp:
                self.source = fp.read()
        try:
            self.tree = ast.parse(self.source, filename=path)
        except SyntaxError as e:
            raise AnalysisError(f"syntax error in {relpath}: {e}")
        self.imports = {}  # local name -> ("module", dotted) | ("attr", module_dotted, attr)
        self.defs = {}  # name -> Func | Class | ("const", expr node, stmt)
        self.assign_order = []  # (name, stmt) in order, all module-level simple assignments
        self.toplevel = []  # module-level statements that are not defs/imports (import-time code)
        self.package = name if is_pkg else name.rpartition(".")[0]
        self._scan(self.tree.body, top=True)

    def _scan(self, body, top):
        for st in body:
            if isinstance(st, ast.Import):
                for a in st.names:
                    if a.asname:
                        self.imports[a.asname] = ("module", a.name)
                    else:
                        self.imports[a.name.split(".")[0]] = ("module", a.name.split(".")[0])
            elif isinstance(st, ast.ImportFrom):
                base = st.module or ""
                if st.level:
                    parts = self.package.split(".")
                    if st.level > 1:
                        parts = parts[: -(st.level - 1)]
                    base = ".".join(parts + ([st.module] if st.module else []))
                for a in st.names:
                    self.imports[a.asname or a.name] = ("attr", base, a.name)
            elif isinstance(st, (ast.FunctionDef, ast.AsyncFunctionDef)):
                self.defs[st.name] = Func(self, st)
            elif isinstance(st, ast.ClassDef):
                self.defs[st.name] = Class(self, st)
            elif isinstance(st, ast.Assign):
                for t in st.targets:
                    if isinstance(t, ast.Name):
                        self.defs[t.id] = ("const", st.value, st)
                        self.assign_order.append((t.id, st))
                    elif isinstance(t, (ast.Tuple, ast.List)) and all(isinstance(e, ast.Name) for e in t.elts):
                        # a, b = <expr>: each name is the corresponding item of the value
                        for i, e in enumerate(t.elts):
                            item = ast.Subscript(value=st.value, slice=ast.Constant(i), ctx=ast.Load())
                            ast.copy_location(item, st.value)
                            ast.fix_missing_locations(item)
                            self.defs[e.id] = ("const", item, st)
                            self.assign_order.append((e.id, st))
                if not all(isinstance(t, ast.Name) or (isinstance(t, (ast.Tuple, ast.List)) and all(isinstance(e, ast.Name) for e in t.elts)) for t in st.targets):
                    self.toplevel.append(st)
            elif isinstance(st, ast.AnnAssign):
                if isinstance(st.target, ast.Name) and st.value is not None:
                    self.defs[st.target.id] = ("const", st.value, st)
                    self.assign_order.append((st.target.id, st))
            elif isinstance(st, ast.Try):
                # try: from typing import Self / except ImportError: ... -> take the try body
                self._scan(st.body, top)
                for h in st.handlers:
                    for s in h.body:
                        if isinstance(s, (ast.Import, ast.ImportFrom)):
                            # only fills names the try body did not already define
                            saved = dict(self.imports)
                            self._scan([s], top)
                            for k, v in saved.items():
                                self.imports[k] = v
            elif isinstance(st, ast.If):
                test = dotted(st.test)
                if test in ("TYPE_CHECKING", "typing.TYPE_CHECKING"):
                    continue
                self.toplevel.append(st)
            elif isinstance(st, ast.Expr) and isinstance(st.value, ast.Constant):
                continue
            else:
                self.toplevel.append(st)

    def __repr__(self):
        return f"<Module {self.name}>"


class Program:
    def __init__(self, root, package="schwifty", overrides=None):
        self.root = os.path.abspath(root)
        self.package = package
        self.overrides = dict(overrides or {})   # relpath -> source text (in-memory variants for positive controls)
        self.modules = {}
        pkgdir = os.path.join(self.root, package)
        if not os.path.isdir(pkgdir):
            raise AnalysisError(f"package directory {pkgdir} not found")
        for dirpath, dirnames, filenames in os.walk(pkgdir):
            dirnames[:] = sorted(d for d in dirnames if d != "__pycache__")
            for fn in sorted(filenames):
                if not fn.endswith(".py"):
                    continue
                path = os.path.join(dirpath, fn)
                rel = os.path.relpath(path, self.root)
                parts = rel[:-3].split(os.sep)
                is_pkg = parts[-1] == "__init__"
                if is_pkg:
                    parts = parts[:-1]
                name = ".".join(parts)
                self.modules[name] = Module(self, name, path, rel, is_pkg)
        self._all_classes = None

    # ---- lookup helpers -------------------------------------------------
    def module(self, name):
        m = self.modules.get(name)
        if m is None:
            raise AnalysisError(f"anchor vanished: module {name}")
        return m

    def get(self, qual):
        """'schwifty.iban.IBAN.validate' style lookup; raises AnalysisError if missing."""
        parts = qual.split(".")
        for i in range(len(parts), 0, -1):
            mn = ".".join(parts[:i])
            if mn in self.modules:
                obj = self.modules[mn]
                rest = parts[i:]
                break
        else:
            raise AnalysisError(f"anchor vanished: {qual}")
        for p in rest:
            nxt = None
            if isinstance(obj, Module):
                nxt = obj.defs.get(p)
                if nxt is None and p in obj.imports:
                    nxt = self.resolve_import(obj.imports[p])
            elif isinstance(obj, Class):
                nxt = obj.methods.get(p) or obj.nested.get(p)
                if nxt is None and p in obj.attrs:
                    nxt = ("const", obj.attrs[p], None)
            if nxt is None:
                raise AnalysisError(f"anchor vanished: {qual} (no {p!r})")
            obj = nxt
        return obj

    def find(self, qual):
        try:
            return self.get(qual)
        except AnalysisError:
            return None

    def resolve_import(self, target):
        if target[0] == "module":
            return self.modules.get(target[1]) or ("extmodule", target[1])
        _, mod, attr = target
        sub = f"{mod}.{attr}"
        if sub in self.modules:
            return self.modules[sub]
        if mod in self.modules:
            m = self.modules[mod]
            if attr in m.defs:
                return m.defs[attr] if not isinstance(m.defs[attr], tuple) else ("modconst", m, attr)
            if attr in m.imports:
                return self.resolve_import(m.imports[attr])
            return None
        return ("ext", f"{mod}.{attr}")

    def resolve_name(self, module, name, cls_scope=None):
        """Resolve a bare name in module scope (optionally inside a class body scope first)."""
        c = cls_scope
        while c is not None:
            if name in c.nested:
                return c.nested[name]
            if name in c.methods:
                return c.methods[name]
            if name in c.attrs:
                return ("clsconst", c, name)
            c = None  # class scopes do not nest for name lookup
        if name in module.defs:
            d = module.defs[name]
            return ("modconst", module, name) if isinstance(d, tuple) else d
        if name in module.imports:
            return self.resolve_import(module.imports[name])
        return None

    def resolve_expr(self, module, node, cls_scope=None):
        """Resolve Name / dotted Attribute to a definition (Module, Class, Func, tuple tag)."""
        if isinstance(node, ast.Name):
            return self.resolve_name(module, node.id, cls_scope)
        if isinstance(node, ast.Attribute):
            base = self.resolve_expr(module, node.value, cls_scope)
            if isinstance(base, Module):
                if node.attr in base.defs:
                    d = base.defs[node.attr]
                    return ("modconst", base, node.attr) if isinstance(d, tuple) else d
                if node.attr in base.imports:
                    return self.resolve_import(base.imports[node.attr])
                sub = f"{base.name}.{node.attr}"
                if sub in self.modules:
                    return self.modules[sub]
                return None
            if isinstance(base, Class):
                r = base.lookup(self, node.attr)
                if r is None:
                    return None
                c, kind, obj = r
                if kind == "attr":
                    return ("clsconst", c, node.attr)
                return obj
            if isinstance(base, tuple) and base[0] == "extmodule":
                return ("ext", f"{base[1]}.{node.attr}")
            if isinstance(base, tuple) and base[0] == "ext":
                return ("ext", f"{base[1]}.{node.attr}")
            return None
        return None

    def all_classes(self):
        if self._all_classes is None:
            out = []

            def rec(c):
                out.append(c)
                for n in c.nested.values():
                    rec(n)

            for m in self.modules.values():
                for d in m.defs.values():
                    if isinstance(d, Class):
                        rec(d)
            self._all_classes = out
        return self._all_classes

    def all_funcs(self):
        out = []

        def rec_f(f):
            out.append(f)
            for st in ast.walk(f.node):
                pass

        for m in self.modules.values():
            for d in m.defs.values():
                if isinstance(d, Func):
                    out.append(d)
        for c in self.all_classes():
            out.extend(c.methods.values())
        return out


def nested_funcs(func):
    """Functions defined directly inside ``func`` (closures)."""
    out = {}
    for st in ast.walk(func.node):
        if st is func.node:
            continue
        if isinstance(st, (ast.FunctionDef, ast.AsyncFunctionDef)):
            out[st.name] = Func(func.module, st, cls=None, outer=func)
    return out
