"""E4 — regular languages read off regex literals found in the source.

``re._parser.parse`` gives the regex AST; it is compiled to an epsilon-NFA and then to a complete
DFA over an alphabet of *atoms*: the coarsest partition of all code points (0..0x10FFFF) that every
character class in play is a union of.  ``\\d`` / ``\\s`` / ``\\w`` use the running interpreter's
``str.isdecimal`` / ``str.isspace`` / ``str.isalnum`` (str patterns without re.ASCII).

No pattern is ever matched against a sample string here; all answers are computed on automata.
"""
from __future__ import annotations

import re
import sys

try:  # Python >= 3.11
    import re._parser as sre_parse
    import re._constants as sre_c
except ImportError:  # pragma: no cover
    import sre_parse
    import sre_constants as sre_c

from .srcmodel import AnalysisError

MAXCP = sys.maxunicode + 1


class NeedRefine(Exception):
    """A class is not a union of the current atoms: refine the alphabet and restart."""

    def __init__(self, raw):
        self.raw = raw


# ---------------------------------------------------------------------------------------------
# raw character classes: ("set", negate, items) with items ("lit", cp) | ("range", lo, hi) | ("cat", name)

def raw_lit(ch):
    return ("set", False, (("lit", ord(ch)),))


def raw_chars(chars):
    return ("set", False, tuple(sorted(("lit", ord(c)) for c in set(chars))))


def raw_range(lo, hi):
    return ("set", False, (("range", ord(lo), ord(hi)),))


def raw_union(*raws):
    items = []
    for r in raws:
        if r[1]:
            raise ValueError("cannot union negated raw class")
        items.extend(r[2])
    return ("set", False, tuple(items))


RAW_ANY = ("set", True, ())
RAW_DIGIT_UNI = ("set", False, (("cat", "digit"),))
RAW_SPACE_UNI = ("set", False, (("cat", "space"),))
RAW_ASCII_DIGIT = raw_range("0", "9")
RAW_ASCII_UPPER = raw_range("A", "Z")
RAW_ASCII_LOWER = raw_range("a", "z")
RAW_ASCII_ALNUM_UPPER = raw_union(RAW_ASCII_DIGIT, RAW_ASCII_UPPER)

_CAT_FUNCS = {
    "digit": str.isdecimal,
    "space": str.isspace,
    "word": lambda c: c.isalnum() or c == "_",
}
_ASCII_CAT = {
    "digit": lambda c: c in "0123456789",
    "space": lambda c: c in " \t\n\r\f\v",
    "word": lambda c: (c.isalnum() and ord(c) < 128) or c == "_",
}

_CAT_BIT = {"digit": 1, "space": 2, "word": 4}
_catbits = None


def catbits():
    """bytearray over all code points: bit 1 isdecimal, 2 isspace, 4 isalnum-or-underscore."""
    global _catbits
    if _catbits is None:
        t = bytearray(MAXCP)
        for i in range(MAXCP):
            c = chr(i)
            v = 0
            if c.isdecimal():
                v |= 1
            if c.isspace():
                v |= 2
            if c.isalnum() or c == "_":
                v |= 4
            if v:
                t[i] = v
        _catbits = t
    return _catbits


def _cat_member(name, cp):
    return bool(catbits()[cp] & _CAT_BIT[name])


_cased = None


def tolower(cp, ascii_mode=False):
    import _sre
    return _sre.ascii_tolower(cp) if ascii_mode else _sre.unicode_tolower(cp)


def cased_codepoints():
    """Code points changed by sre's simple lower-casing (plus the extra case-fix members)."""
    global _cased
    if _cased is None:
        import _sre
        try:
            import re._casefix as cf
            extra = cf._EXTRA_CASES
        except ImportError:  # pragma: no cover
            extra = {}
        pts = set(cp for cp in range(MAXCP) if _sre.unicode_tolower(cp) != cp)
        for k, vs in extra.items():
            pts.add(k)
            pts.update(vs)
        _cased = sorted(pts)
    return _cased


def icase_raw(raw, ascii_mode=False):
    """Class matched under re.IGNORECASE: ch matches iff lower(ch) is in the lower-cased class (sre semantics)."""
    try:
        import re._casefix as cf
        extra = {} if ascii_mode else cf._EXTRA_CASES
    except ImportError:  # pragma: no cover
        extra = {}
    _, neg, items = raw
    lits = set()
    keep = []
    for it in items:
        if it[0] == "lit":
            lo = tolower(it[1], ascii_mode)
            lits.add(lo)
            lits.update(extra.get(lo, ()))
        elif it[0] == "range":
            if it[2] - it[1] > 70000:
                raise AnalysisError("IGNORECASE over a very large character range is not modelled")
            for i in range(it[1], it[2] + 1):
                lo = tolower(i, ascii_mode)
                lits.add(lo)
                lits.update(extra.get(lo, ()))
        else:
            keep.append(it)
    inner = tuple(sorted(("lit", x) for x in lits)) + tuple(keep)
    return ("set", neg, (("icase", ascii_mode, inner),))


def raw_contains(raw, cp, ascii_only=False):
    _, neg, items = raw
    hit = False
    for it in items:
        k = it[0]
        if k == "lit":
            if cp == it[1]:
                hit = True
                break
        elif k == "range":
            if it[1] <= cp <= it[2]:
                hit = True
                break
        elif k == "cat":
            if _cat_member(it[1], cp):
                hit = True
                break
        elif k == "acat":
            if cp < 128 and _ASCII_CAT[it[1]](chr(cp)):
                hit = True
                break
        elif k == "ncat":
            if not _cat_member(it[1], cp):
                hit = True
                break
        elif k == "nacat":
            if not (cp < 128 and _ASCII_CAT[it[1]](chr(cp))):
                hit = True
                break
        elif k == "icase":
            lc = tolower(cp, it[1])
            if raw_contains(("set", False, it[2]), lc):
                hit = True
                break
        else:
            raise AnalysisError(f"unknown raw class item {it!r}")
    return hit != neg


def _nicer(a, b):
    """Prefer printable ASCII representatives, then letters/digits, over control or odd ones."""
    def score(cp):
        ch = chr(cp)
        if 0xD800 <= cp <= 0xDFFF:
            return 9
        if cp < 128 and ch.isalnum():
            return 0
        if cp < 128 and ch.isprintable() and not ch.isspace():
            return 1
        if ch.isprintable() and not ch.isspace():
            return 2
        return 5
    return score(a) < score(b)


class Alphabet:
    """Partition of all code points into atoms; every registered raw class is a union of atoms."""

    def __init__(self, raws=()):
        self.raws = []
        for r in raws:
            if r not in self.raws:
                self.raws.append(r)
        self._build()

    def refined(self, raw):
        return Alphabet(self.raws + [raw])

    def _build(self):
        raws = self.raws
        cats = set()
        points = {0, MAXCP}
        for r in raws:
            for it in r[2]:
                if it[0] == "lit":
                    points.add(it[1]); points.add(it[1] + 1)
                elif it[0] == "range":
                    points.add(it[1]); points.add(it[2] + 1)
                elif it[0] in ("cat", "ncat"):
                    cats.add(it[1])
                elif it[0] in ("acat", "nacat"):
                    points.update(range(129))
                elif it[0] == "icase":
                    for cp in cased_codepoints():
                        points.add(cp); points.add(cp + 1)
                    for sub in it[2]:
                        if sub[0] == "lit":
                            points.add(sub[1]); points.add(sub[1] + 1)
                        elif sub[0] in ("cat", "ncat"):
                            cats.add(sub[1])
                        elif sub[0] in ("acat", "nacat"):
                            points.update(range(129))
        points = sorted(p for p in points if 0 <= p <= MAXCP)
        mask = 0
        for c in cats:
            mask |= _CAT_BIT[c]
        table = bytes((v & mask) for v in range(256))
        bits = catbits() if mask else None
        sig_to_atom = {}
        self.atom_rep = []      # representative code point
        self.atom_count = []    # number of code points
        self.atom_sig = []
        self.mask = mask
        intervals = []          # (lo, hi_exclusive, {masked catbits: atom})
        for lo, hi in zip(points, points[1:]):
            if mask:
                seg = bytes(bits[lo:hi]).translate(table)
                groups = {v: (lo + seg.index(v), seg.count(v)) for v in set(seg)}
            else:
                groups = {0: (lo, hi - lo)}
            local = {}
            for cs, (rep, cnt) in groups.items():
                sig = tuple(raw_contains(r, rep) for r in raws)
                a = sig_to_atom.get(sig)
                if a is None:
                    a = len(self.atom_rep)
                    sig_to_atom[sig] = a
                    self.atom_rep.append(rep)
                    self.atom_count.append(0)
                    self.atom_sig.append(sig)
                elif _nicer(rep, self.atom_rep[a]):
                    self.atom_rep[a] = rep
                self.atom_count[a] += cnt
                local[cs] = a
            intervals.append((lo, hi, local))
        self.intervals = intervals
        self.n = len(self.atom_rep)
        self._classes = {r: frozenset(a for a in range(self.n) if self.atom_sig[a][i])
                         for i, r in enumerate(raws)}
        self.all_atoms = frozenset(range(self.n))

    def atoms_of(self, raw):
        s = self._classes.get(raw)
        if s is None:
            raise NeedRefine(raw)
        return s

    def atom_of_cp(self, cp):
        for lo, hi, local in self.intervals:
            if lo <= cp < hi:
                return local[catbits()[cp] & self.mask if self.mask else 0]
        raise AnalysisError(f"code point {cp} outside alphabet")

    def atom_of_char(self, ch):
        return self.atom_of_cp(ord(ch))

    def rep_char(self, atom):
        return chr(self.atom_rep[atom])

    def describe_atom(self, atom):
        cp = self.atom_rep[atom]
        n = self.atom_count[atom]
        ch = chr(cp)
        shown = ch if ch.isprintable() and not ch.isspace() else f"U+{cp:04X}"
        if n == 1:
            return shown
        return f"{{{shown} U+{cp:04X} +{n - 1} more}}"

    def word_to_str(self, word):
        return "".join(self.rep_char(a) for a in word)

    def describe_word(self, word):
        return " ".join(self.describe_atom(a) for a in word)


# ---------------------------------------------------------------------------------------------
# regex AST -> NFA

class _NFA:
    def __init__(self):
        self.eps = []    # state -> list of states
        self.trans = []  # state -> list of (frozenset(atoms), state)

    def new(self):
        self.eps.append([])
        self.trans.append([])
        return len(self.eps) - 1


def _in_items_to_raw(items, flags):
    neg = False
    out = []
    ascii_mode = bool(flags & re.ASCII)
    for op, av in items:
        if op is sre_c.NEGATE:
            neg = True
        elif op is sre_c.LITERAL:
            out.append(("lit", av))
        elif op is sre_c.RANGE:
            out.append(("range", av[0], av[1]))
        elif op is sre_c.CATEGORY:
            out.append(_category_item(av, ascii_mode))
        else:
            raise AnalysisError(f"unsupported class item {op}")
    return ("set", neg, tuple(out))


def _category_item(av, ascii_mode):
    name = str(av)
    table = {
        "CATEGORY_DIGIT": ("digit", False), "CATEGORY_NOT_DIGIT": ("digit", True),
        "CATEGORY_SPACE": ("space", False), "CATEGORY_NOT_SPACE": ("space", True),
        "CATEGORY_WORD": ("word", False), "CATEGORY_NOT_WORD": ("word", True),
    }
    if name not in table:
        raise AnalysisError(f"unsupported category {name}")
    cat, neg = table[name]
    if ascii_mode:
        return ("nacat" if neg else "acat", cat)
    return ("ncat" if neg else "cat", cat)


class Regex:
    """A parsed regex literal: core language plus begin/end anchors."""

    def __init__(self, pattern, flags=0):
        if isinstance(pattern, bytes):
            raise AnalysisError("bytes patterns are not supported")
        self.pattern = pattern
        self.flags = flags
        try:
            parsed = sre_parse.parse(pattern, flags)
        except Exception as e:  # re.error
            raise AnalysisError(f"regex {pattern!r} does not parse: {e}")
        self.flags = parsed.state.flags if hasattr(parsed, "state") else flags
        if self.flags & (re.IGNORECASE | re.MULTILINE | re.DOTALL | re.VERBOSE) & ~re.VERBOSE:
            if self.flags & re.MULTILINE:
                raise AnalysisError(f"regex {pattern!r}: MULTILINE not supported")
        seq = list(parsed)
        self.bol = False
        self.eol = None  # None | "$" | "Z"
        while seq and seq[0][0] is sre_c.AT and seq[0][1] in (sre_c.AT_BEGINNING, sre_c.AT_BEGINNING_STRING):
            self.bol = True
            seq = seq[1:]
        while seq and seq[-1][0] is sre_c.AT and seq[-1][1] in (sre_c.AT_END, sre_c.AT_END_STRING):
            kind = "$" if seq[-1][1] is sre_c.AT_END else "Z"
            self.eol = kind if self.eol in (None, kind) else "Z"
            seq = seq[:-1]
        self.seq = seq
        self.raws = []
        if self.eol == "$":
            self.raws.append(("set", False, (("lit", 10),)))
        self._collect(seq)

    def _collect(self, seq):
        for op, av in seq:
            if op is sre_c.LITERAL:
                self.raws.append(self._raw(("set", False, (("lit", av),))))
            elif op is sre_c.NOT_LITERAL:
                self.raws.append(self._raw(("set", True, (("lit", av),))))
            elif op is sre_c.ANY:
                self.raws.append(("set", True, (("lit", 10),)) if not self.flags & re.DOTALL else RAW_ANY)
            elif op is sre_c.IN:
                self.raws.append(self._raw(_in_items_to_raw(av, self.flags)))
            elif op in (sre_c.MAX_REPEAT, sre_c.MIN_REPEAT):
                self._collect(list(av[2]))
            elif op is sre_c.SUBPATTERN:
                self._collect(list(av[3]))
            elif op is sre_c.BRANCH:
                for alt in av[1]:
                    self._collect(list(alt))
            elif op is sre_c.AT:
                raise AnalysisError(f"regex {self.pattern!r}: anchor inside the pattern is not supported")
            elif op is sre_c.CATEGORY:
                self.raws.append(("set", False, (_category_item(av, bool(self.flags & re.ASCII)),)))
            elif op in (sre_c.ASSERT, sre_c.ASSERT_NOT) and av[0] == 1:
                self._collect(list(av[1]))   # lookahead: supported at the top level of the pattern (see _lang_from)
            else:
                raise AnalysisError(f"regex {self.pattern!r}: unsupported construct {op}")

    def _build(self, nfa, seq, alpha, start):
        cur = start
        for op, av in seq:
            if op is sre_c.LITERAL:
                cur = self._step(nfa, cur, alpha.atoms_of(self._raw(("set", False, (("lit", av),)))))
            elif op is sre_c.NOT_LITERAL:
                cur = self._step(nfa, cur, alpha.atoms_of(self._raw(("set", True, (("lit", av),)))))
            elif op is sre_c.ANY:
                raw = ("set", True, (("lit", 10),)) if not self.flags & re.DOTALL else RAW_ANY
                cur = self._step(nfa, cur, alpha.atoms_of(raw))
            elif op is sre_c.IN:
                cur = self._step(nfa, cur, alpha.atoms_of(self._raw(_in_items_to_raw(av, self.flags))))
            elif op is sre_c.CATEGORY:
                raw = ("set", False, (_category_item(av, bool(self.flags & re.ASCII)),))
                cur = self._step(nfa, cur, alpha.atoms_of(raw))
            elif op in (sre_c.MAX_REPEAT, sre_c.MIN_REPEAT):
                lo, hi, sub = av
                sub = list(sub)
                for _ in range(lo):
                    cur = self._build(nfa, sub, alpha, cur)
                if hi is sre_c.MAXREPEAT:
                    loop = nfa.new()
                    nfa.eps[cur].append(loop)
                    end = self._build(nfa, sub, alpha, loop)
                    nfa.eps[end].append(loop)
                    cur = loop
                else:
                    if hi - lo > 4096:
                        raise AnalysisError("repeat bound too large")
                    exits = [cur]
                    for _ in range(hi - lo):
                        cur = self._build(nfa, sub, alpha, cur)
                        exits.append(cur)
                    out = nfa.new()
                    for e in exits:
                        nfa.eps[e].append(out)
                    cur = out
            elif op is sre_c.SUBPATTERN:
                cur = self._build(nfa, list(av[3]), alpha, cur)
            elif op is sre_c.BRANCH:
                out = nfa.new()
                for alt in av[1]:
                    s = nfa.new()
                    nfa.eps[cur].append(s)
                    e = self._build(nfa, list(alt), alpha, s)
                    nfa.eps[e].append(out)
                cur = out
            else:
                raise AnalysisError(f"regex {self.pattern!r}: unsupported construct {op}")
        return cur

    def _raw(self, raw):
        if self.flags & re.IGNORECASE:
            return icase_raw(raw, bool(self.flags & re.ASCII))
        return raw

    @staticmethod
    def _step(nfa, cur, atoms):
        nxt = nfa.new()
        nfa.trans[cur].append((atoms, nxt))
        return nxt

    def _plain(self, seq, alpha):
        nfa = _NFA()
        s = nfa.new()
        e = self._build(nfa, seq, alpha, s)
        return _determinize(nfa, s, {e}, alpha)

    def _lang_from(self, seq, alpha, tail):
        """Language of ``seq`` followed by ``tail`` (what the input may still contain after the pattern), with top-level lookaheads:
        `A(?=X)B` followed by T is A . ((B . T) intersected with (X . any)); `(?!X)` takes the difference instead."""
        for i, (op, av) in enumerate(seq):
            if op in (sre_c.ASSERT, sre_c.ASSERT_NOT):
                if av[0] != 1:
                    raise AnalysisError(f"regex {self.pattern!r}: lookbehind is not supported")
                rest = self._lang_from(seq[i + 1:], alpha, tail)
                look = self._lang_from(list(av[1]), alpha, DFA.any_string(alpha))
                rest = rest.intersect(look) if op is sre_c.ASSERT else rest.minus(look)
                return self._plain(seq[:i], alpha).concat(rest)
        c = self._plain(seq, alpha)
        return c if tail is None else c.concat(tail)

    def core(self, alpha):
        return self._lang_from(self.seq, alpha, None)

    def language(self, alpha, mode):
        """Set of full strings s for which <mode>(pattern, s) succeeds."""
        anystr = DFA.any_string(alpha)
        if mode == "fullmatch":
            return self._lang_from(self.seq, alpha, None)
        if mode in ("match", "search"):
            if self.eol is None:
                lang = self._lang_from(self.seq, alpha, anystr)
            elif self.eol == "$":
                nl = DFA.single(alpha, alpha.atoms_of(("set", False, (("lit", 10),))))
                lang = self._lang_from(self.seq, alpha, DFA.epsilon(alpha).union(nl))
            else:
                lang = self._lang_from(self.seq, alpha, None)
            if mode == "search" and not self.bol:
                lang = anystr.concat(lang)
            return lang
        raise AnalysisError(f"unknown match mode {mode}")


def _determinize(nfa, start, accepts, alpha):
    def closure(states):
        stack = list(states)
        seen = set(states)
        while stack:
            s = stack.pop()
            for t in nfa.eps[s]:
                if t not in seen:
                    seen.add(t)
                    stack.append(t)
        return frozenset(seen)

    init = closure({start})
    index = {init: 0}
    order = [init]
    trans = []
    i = 0
    while i < len(order):
        cur = order[i]
        row = {}
        moves = {}
        for s in cur:
            for atoms, t in nfa.trans[s]:
                for a in atoms:
                    moves.setdefault(a, set()).add(t)
        cache = {}
        for a, tgt in moves.items():
            key = frozenset(tgt)
            c = cache.get(key)
            if c is None:
                c = closure(key)
                cache[key] = c
            j = index.get(c)
            if j is None:
                j = len(order)
                index[c] = j
                order.append(c)
            row[a] = j
        trans.append(row)
        i += 1
    acc = frozenset(i for i, st in enumerate(order) if st & accepts)
    return DFA(alpha, trans, 0, acc).minimized()


# ---------------------------------------------------------------------------------------------

class DFA:
    """Partial DFA (missing transition = dead) over an Alphabet's atoms."""

    __slots__ = ("alpha", "trans", "start", "accept", "_key", "_trim", "_empty")

    def __init__(self, alpha, trans, start, accept):
        self.alpha = alpha
        self.trans = trans
        self.start = start
        self.accept = frozenset(accept)
        self._key = None
        self._trim = False
        self._empty = None

    # ---- constructors -----------------------------------------------------
    @staticmethod
    def empty(alpha):
        return DFA(alpha, [{}], 0, ())

    @staticmethod
    def epsilon(alpha):
        return DFA(alpha, [{}], 0, (0,))

    @staticmethod
    def any_string(alpha):
        return DFA(alpha, [{a: 0 for a in range(alpha.n)}], 0, (0,))

    @staticmethod
    def single(alpha, atoms):
        return DFA(alpha, [{a: 1 for a in atoms}, {}], 0, (1,))

    @staticmethod
    def positional(alpha, classes):
        """Exactly len(classes) characters, i-th in classes[i] (sets of atoms)."""
        trans = [{a: i + 1 for a in cl} for i, cl in enumerate(classes)] + [{}]
        return DFA(alpha, trans, 0, (len(classes),)).minimized()

    @staticmethod
    def literal(alpha, text):
        return DFA.positional(alpha, [frozenset([alpha.atom_of_char(c)]) for c in text])

    @staticmethod
    def from_words(alpha, words):
        """The finite language of ``words`` as a trie over the atoms (linear in the total length; a chain of unions is quadratic)."""
        trans = [{}]
        accept = set()
        for w in words:
            q = 0
            for c in w:
                a = alpha.atom_of_char(c)
                nxt = trans[q].get(a)
                if nxt is None:
                    nxt = len(trans)
                    trans.append({})
                    trans[q][a] = nxt
                q = nxt
            accept.add(q)
        return DFA(alpha, trans, 0, tuple(sorted(accept)))

    @staticmethod
    def length_in(alpha, lengths, upto=None):
        """All strings whose length is in ``lengths`` (finite set)."""
        if not lengths:
            return DFA.empty(alpha)
        m = max(lengths)
        trans = [{a: i + 1 for a in range(alpha.n)} for i in range(m)] + [{}]
        return DFA(alpha, trans, 0, tuple(lengths))

    @staticmethod
    def length_at_least(alpha, n):
        trans = [{a: i + 1 for a in range(alpha.n)} for i in range(n)] + [{a: n for a in range(alpha.n)}]
        return DFA(alpha, trans, 0, (n,))

    @staticmethod
    def chars_in(alpha, atoms):
        return DFA(alpha, [{a: 0 for a in atoms}], 0, (0,))

    @staticmethod
    def union_many(alpha, dfas):
        """Union of many DFAs through one NFA (cheaper than a chain of products)."""
        dfas = list(dfas)
        if not dfas:
            return DFA.empty(alpha)
        nfa = _NFA()
        init = nfa.new()
        accepts = set()
        for d in dfas:
            off = len(nfa.eps)
            for _ in d.trans:
                nfa.new()
            for s_, row in enumerate(d.trans):
                by_t = {}
                for a, t in row.items():
                    by_t.setdefault(t, set()).add(a)
                for t, atoms in by_t.items():
                    nfa.trans[off + s_].append((frozenset(atoms), off + t))
            nfa.eps[init].append(off + d.start)
            accepts.update(off + s_ for s_ in d.accept)
        return _determinize(nfa, init, accepts, alpha)

    # ---- algebra -------------------------------------------------------------
    def _product(self, other, op):
        if self.alpha is not other.alpha:
            raise AnalysisError("DFA product over different alphabets")
        n = self.alpha.n
        index = {(self.start, other.start): 0}
        order = [(self.start, other.start)]
        trans = []
        i = 0
        while i < len(order):
            p, q = order[i]
            row = {}
            tp = self.trans[p] if p is not None else {}
            tq = other.trans[q] if q is not None else {}
            keys = set(tp) | set(tq) if op != "and" else (set(tp) & set(tq))
            for a in keys:
                np_, nq = tp.get(a), tq.get(a)
                if op == "and" and (np_ is None or nq is None):
                    continue
                if op == "diff" and np_ is None:
                    continue
                if np_ is None and nq is None:
                    continue
                k = (np_, nq)
                j = index.get(k)
                if j is None:
                    j = len(order)
                    index[k] = j
                    order.append(k)
                row[a] = j
            trans.append(row)
            i += 1
        acc = []
        for i, (p, q) in enumerate(order):
            ap = p is not None and p in self.accept
            aq = q is not None and q in other.accept
            if (op == "and" and ap and aq) or (op == "or" and (ap or aq)) or (op == "diff" and ap and not aq):
                acc.append(i)
        return DFA(self.alpha, trans, 0, acc).trimmed()

    def intersects(self, other):
        """Is the intersection non-empty?  (pair search with early exit, nothing is built)"""
        acc1, acc2 = self.accept, other.accept
        if not acc1 or not acc2:
            return False
        start = (self.start, other.start)
        if start[0] in acc1 and start[1] in acc2:
            return True
        seen = {start}
        stack = [start]
        t1, t2 = self.trans, other.trans
        while stack:
            p, q = stack.pop()
            rp, rq = t1[p], t2[q]
            if len(rp) > len(rq):
                for a, nq in rq.items():
                    np_ = rp.get(a)
                    if np_ is None:
                        continue
                    k = (np_, nq)
                    if k not in seen:
                        if np_ in acc1 and nq in acc2:
                            return True
                        seen.add(k)
                        stack.append(k)
            else:
                for a, np_ in rp.items():
                    nq = rq.get(a)
                    if nq is None:
                        continue
                    k = (np_, nq)
                    if k not in seen:
                        if np_ in acc1 and nq in acc2:
                            return True
                        seen.add(k)
                        stack.append(k)
        return False

    def included_in(self, other):
        """self subset of other?  (pair search with early exit; self should be trimmed)"""
        d = self if self._trim else self.trimmed()
        acc1, acc2 = d.accept, other.accept
        if not acc1:
            return True
        start = (d.start, other.start)
        if start[0] in acc1 and start[1] not in acc2:
            return False
        seen = {start}
        stack = [start]
        t1, t2 = d.trans, other.trans
        while stack:
            p, q = stack.pop()
            rq = t2[q] if q is not None else {}
            for a, np_ in t1[p].items():
                nq = rq.get(a)
                if nq is None:
                    return False  # np_ is live in a trimmed DFA: some word continues to acceptance
                k = (np_, nq)
                if k not in seen:
                    if np_ in acc1 and nq not in acc2:
                        return False
                    seen.add(k)
                    stack.append(k)
        return True

    def intersect(self, other):
        return self._product(other, "and")

    def union(self, other):
        return self._product(other, "or")

    def minus(self, other):
        return self._product(other, "diff")

    def complement(self):
        return DFA.any_string(self.alpha).minus(self)

    def concat(self, other):
        """Concatenation via NFA construction."""
        nfa = _NFA()
        off1 = 0
        for _ in self.trans:
            nfa.new()
        off2 = len(self.trans)
        for _ in other.trans:
            nfa.new()
        for s, row in enumerate(self.trans):
            by_t = {}
            for a, t in row.items():
                by_t.setdefault(t, set()).add(a)
            for t, atoms in by_t.items():
                nfa.trans[s].append((frozenset(atoms), t))
        for s, row in enumerate(other.trans):
            by_t = {}
            for a, t in row.items():
                by_t.setdefault(t, set()).add(a)
            for t, atoms in by_t.items():
                nfa.trans[off2 + s].append((frozenset(atoms), off2 + t))
        for s in self.accept:
            nfa.eps[s].append(off2 + other.start)
        return _determinize(nfa, self.start, {off2 + s for s in other.accept}, self.alpha)

    def is_empty(self):
        if self._empty is None:
            if self._trim:
                self._empty = not self.accept
            else:
                self._empty = self.shortest() is None
        return self._empty

    def accepts_word(self, atoms):
        s_ = self.start
        for a in atoms:
            s_ = self.trans[s_].get(a)
            if s_ is None:
                return False
        return s_ in self.accept

    def subset_of(self, other):
        return self.minus(other).is_empty()

    def equals(self, other):
        return self.subset_of(other) and other.subset_of(self)

    def shortest(self):
        """Shortest accepted atom word (tuple) or None."""
        if self.start in self.accept:
            return ()
        prev = {self.start: None}
        frontier = [self.start]
        while frontier:
            nxt = []
            for s in frontier:
                for a in sorted(self.trans[s]):
                    t = self.trans[s][a]
                    if t not in prev:
                        prev[t] = (s, a)
                        if t in self.accept:
                            word = []
                            cur = t
                            while prev[cur] is not None:
                                ps, pa = prev[cur]
                                word.append(pa)
                                cur = ps
                            return tuple(reversed(word))
                        nxt.append(t)
            frontier = nxt
        return None

    def witness(self, prefer=None):
        """(atom word, concrete string) of a shortest member; prefers 'nice' atoms on ties."""
        w = self.shortest()
        if w is None:
            return None
        return w, self.alpha.word_to_str(w)

    def lengths(self, limit=256):
        """Set of accepted lengths up to ``limit`` and whether longer ones exist."""
        cur = {self.start}
        out = set()
        seen_states = set()
        for n in range(limit + 1):
            if cur & self.accept:
                out.add(n)
            nxt = set()
            for s in cur:
                nxt.update(self.trans[s].values())
            cur = nxt
            if not cur:
                return out, False
        return out, True

    def count(self, length):
        """Number of accepted code-point strings of exactly ``length``."""
        cur = {self.start: 1}
        for _ in range(length):
            nxt = {}
            for s, c in cur.items():
                for a, t in self.trans[s].items():
                    nxt[t] = nxt.get(t, 0) + c * self.alpha.atom_count[a]
            cur = nxt
        return sum(c for s, c in cur.items() if s in self.accept)

    def projections(self, length):
        """Per-position atom sets of the accepted strings of exactly ``length`` (None if none)."""
        layers = [{self.start}]
        for _ in range(length):
            nxt = set()
            for s in layers[-1]:
                nxt.update(self.trans[s].values())
            layers.append(nxt)
        good = [set() for _ in range(length + 1)]
        good[length] = layers[length] & self.accept
        if not good[length]:
            return None
        proj = [set() for _ in range(length)]
        for i in range(length - 1, -1, -1):
            for s in layers[i]:
                for a, t in self.trans[s].items():
                    if t in good[i + 1]:
                        good[i].add(s)
                        proj[i].add(a)
        return [frozenset(p) for p in proj]

    def slice_from(self, start, stop=None):
        """Language { s[start:stop] : s in self, len(s) >= (stop or start) }  (quotient by prefix)."""
        cur = {self.start}
        for _ in range(start):
            nxt = set()
            for s in cur:
                nxt.update(self.trans[s].values())
            cur = nxt
        nfa = _NFA()
        for _ in self.trans:
            nfa.new()
        init = nfa.new()
        for s in cur:
            nfa.eps[init].append(s)
        for s, row in enumerate(self.trans):
            by_t = {}
            for a, t in row.items():
                by_t.setdefault(t, set()).add(a)
            for t, atoms in by_t.items():
                nfa.trans[s].append((frozenset(atoms), t))
        if stop is None:
            return _determinize(nfa, init, set(self.accept), self.alpha)
        # states from which an accepting state is reachable are "accepting" after stop-start chars
        live = self._coreachable()
        d = _determinize(nfa, init, live, self.alpha)
        return d.intersect(DFA.length_in(self.alpha, {stop - start}))

    def _coreachable(self):
        rev = {}
        for s, row in enumerate(self.trans):
            for t in row.values():
                rev.setdefault(t, set()).add(s)
        seen = set(self.accept)
        stack = list(self.accept)
        while stack:
            t = stack.pop()
            for s in rev.get(t, ()):
                if s not in seen:
                    seen.add(s)
                    stack.append(s)
        return seen

    def trimmed(self):
        """Remove unreachable and dead states (start stays 0)."""
        live = self._coreachable()
        if self.start not in live:
            e = DFA(self.alpha, [{}], 0, ())
            e._trim = True
            return e
        index = {self.start: 0}
        reach = [self.start]
        i = 0
        while i < len(reach):
            for a, t in self.trans[reach[i]].items():
                if t in live and t not in index:
                    index[t] = len(reach)
                    reach.append(t)
            i += 1
        if len(reach) == len(self.trans) and self.start == 0:
            ok = True
            for s_ in reach:
                if index[s_] != s_:
                    ok = False
                    break
            if ok and all(t in live for row in self.trans for t in row.values()):
                self._trim = True
                return self
        trans = [{a: index[t] for a, t in self.trans[s_].items() if t in live} for s_ in reach]
        d = DFA(self.alpha, trans, 0, {index[s_] for s_ in self.accept if s_ in index})
        d._trim = True
        return d

    def minimized(self):
        d = self.trimmed()
        trans, accept = d.trans, d.accept
        n = len(trans)
        if n <= 1:
            return d
        na = self.alpha.n
        block = [1 if s_ in accept else 0 for s_ in range(n)]
        nblocks = len(set(block))
        rows = []
        for s_ in range(n):
            row = [-1] * na
            for a, t in trans[s_].items():
                row[a] = t
            rows.append(row)
        while True:
            sigs = {}
            newblock = [0] * n
            for s_ in range(n):
                sig = (block[s_], tuple([block[t] if t >= 0 else -1 for t in rows[s_]]))
                b = sigs.get(sig)
                if b is None:
                    b = len(sigs)
                    sigs[sig] = b
                newblock[s_] = b
            block = newblock
            if len(sigs) == nblocks:
                break
            nblocks = len(sigs)
        if nblocks == n:
            return d
        remap = {}
        order = []
        # BFS from the start so that the start block becomes 0
        queue = [0]
        remap[block[0]] = 0
        order.append(0)
        i = 0
        while i < len(queue):
            s_ = queue[i]
            for a in sorted(trans[s_]):
                t = trans[s_][a]
                if block[t] not in remap:
                    remap[block[t]] = len(order)
                    order.append(t)
                    queue.append(t)
            i += 1
        mt = [{a: remap[block[t]] for a, t in trans[s_].items()} for s_ in order]
        macc = {remap[block[s_]] for s_ in accept}
        md = DFA(self.alpha, mt, 0, macc)
        md._trim = True
        return md

    def key(self):
        """Canonical key of the language (minimises first; BFS numbering in atom order)."""
        if self._key is None:
            m = self.minimized()
            if m is not self:
                self._key = m.key()
                return self._key
            order = {self.start: 0}
            queue = [self.start]
            rows = []
            i = 0
            while i < len(queue):
                s = queue[i]
                row = []
                for a in sorted(self.trans[s]):
                    t = self.trans[s][a]
                    if t not in order:
                        order[t] = len(queue)
                        queue.append(t)
                    row.append((a, order[t]))
                rows.append(tuple(row))
                i += 1
            acc = tuple(sorted(order[s] for s in self.accept if s in order))
            self._key = (tuple(rows), acc)
        return self._key


def spec_class_raw(letter, upper_universe=True):
    """ISO 13616 structure classes (n, a, c) as raw classes; 'e' is a blank."""
    if letter == "n":
        return RAW_ASCII_DIGIT
    if letter == "a":
        return RAW_ASCII_UPPER
    if letter == "c":
        return RAW_ASCII_ALNUM_UPPER if upper_universe else raw_union(RAW_ASCII_DIGIT, RAW_ASCII_UPPER, RAW_ASCII_LOWER)
    if letter == "e":
        return raw_lit(" ")
    raise AnalysisError(f"unknown structure class {letter!r}")
