"""Transfer functions and the library model of the evaluator."""
from __future__ import annotations

import ast
import string as _string

from .srcmodel import AnalysisError, Class, Func, dotted
from .values import (
    ASCII_DIGITS, AStr, ABag, Bound, CharSet, ClsRef, CycleVal, ExcVal, ExtRef, FuncRef, Interval,
    ModRef, ND, OT, Obj, RegexVal, SStr, Sym, Unknown, VSet, VSET_CAP, BUILTIN_EXC_BASES, elements,
    is_abstract, join_values,
)

BUILTIN_EXC_NAMES = tuple(BUILTIN_EXC_BASES)


def _CE(msg):
    from .interp import CannotEvaluate
    return CannotEvaluate(msg)


class BagOf:
    """Result of a generator over a string of unknown length: lo..hi items, each ``item``."""

    def __init__(self, lo, hi, item):
        self.lo, self.hi, self.item = lo, hi, item


# ------------------------------------------------------------------------------------------------
# small helpers

def freeze(v):
    if isinstance(v, list):
        return ("list",) + tuple(freeze(x) for x in v)
    if isinstance(v, dict):
        return ("dict",) + tuple(sorted((repr(k), freeze(x)) for k, x in v.items()))
    if isinstance(v, Obj):
        if v.strval is not None:
            return ("obj", v.cls.qualname, freeze(v.strval))
        return ("obj", v.cls.qualname, v.oid)
    return v


def contains_symbolic(v, depth=0):
    if isinstance(v, (Sym, SStr)):
        return True
    if isinstance(v, Obj):
        return isinstance(v.strval, (Sym, SStr))
    if isinstance(v, (list, tuple)) and depth < 4:
        return any(contains_symbolic(x, depth + 1) for x in v)
    if isinstance(v, dict) and depth < 4:
        return any(contains_symbolic(x, depth + 1) for x in v.values())
    return False


def strval(v):
    """Underlying string value of str-like values (Obj of a str subclass)."""
    if isinstance(v, Obj) and v.strval is not None:
        return v.strval
    return v


def is_strlike(v):
    v = strval(v)
    return isinstance(v, (str, AStr, ABag, SStr, CharSet)) or (isinstance(v, VSet) and all(isinstance(x, str) for x in v.vals))


def truth_of(v):
    """True / False when determined, None otherwise."""
    if isinstance(v, Obj):
        if v.strval is not None:
            return truth_of(v.strval)
        return True
    if isinstance(v, (Sym, SStr, Unknown)):
        return None
    if isinstance(v, VSet):
        ts = {bool(x) for x in v.vals}
        return ts.pop() if len(ts) == 1 else None
    if isinstance(v, Interval):
        if v.lo > 0 or v.hi < 0:
            return True
        if v.lo == v.hi == 0:
            return False
        return None
    if isinstance(v, CharSet):
        return True
    if isinstance(v, AStr):
        return len(v) > 0
    if isinstance(v, ABag):
        if v.lo > 0:
            return True
        if v.hi == 0:
            return False
        return None
    if isinstance(v, (ClsRef, FuncRef, Bound, ModRef, ExtRef, RegexVal, CycleVal, ExcVal)):
        return True
    if isinstance(v, BagOf):
        return None
    try:
        return bool(v)
    except Exception:
        return None


def as_intset(v):
    """(kind, data): ('set', frozenset) | ('iv', lo, hi) | None"""
    if isinstance(v, bool):
        return ("set", frozenset([int(v)]))
    if isinstance(v, int):
        return ("set", frozenset([v]))
    if isinstance(v, VSet) and all(isinstance(x, int) for x in v.vals):
        return ("set", frozenset(int(x) for x in v.vals))
    if isinstance(v, Interval):
        return ("iv", v.lo, v.hi)
    return None


def mk_int(vals):
    vals = set(vals)
    if len(vals) == 1:
        return vals.pop()
    if len(vals) <= VSET_CAP:
        return VSet(vals)
    return Interval(min(vals), max(vals))


def bounds(s):
    if s[0] == "set":
        return min(s[1]), max(s[1])
    return s[1], s[2]


# ------------------------------------------------------------------------------------------------
# arithmetic

_PYOP = {
    "Add": lambda a, b: a + b, "Sub": lambda a, b: a - b, "Mult": lambda a, b: a * b,
    "FloorDiv": lambda a, b: a // b, "Mod": lambda a, b: a % b, "Pow": lambda a, b: a ** b,
    "BitAnd": lambda a, b: a & b, "BitOr": lambda a, b: a | b, "BitXor": lambda a, b: a ^ b,
    "LShift": lambda a, b: a << b, "RShift": lambda a, b: a >> b, "Div": lambda a, b: a / b,
}


def binop(it, op, a, b, node):
    a0, b0 = a, b
    a, b = strval(a), strval(b)
    if isinstance(a, Unknown) or isinstance(b, Unknown):
        from .values import UnknownInt

        def intlike(x):
            return isinstance(x, UnknownInt) or (as_intset(x) is not None and not isinstance(x, bool))

        if intlike(a) and intlike(b) and op in ("Add", "Sub", "Mult", "Mod", "FloorDiv"):
            if op in ("Mod", "FloorDiv"):
                sb_ = as_intset(b) if not isinstance(b, Unknown) else None
                if sb_ is None or (bounds(sb_)[0] <= 0 <= bounds(sb_)[1]):
                    it.may_raise("ZeroDivisionError", node, "integer modulo by zero")
                if op == "Mod" and sb_ is not None and bounds(sb_)[0] > 0:
                    return mk_int(range(0, bounds(sb_)[1])) if bounds(sb_)[1] <= 64 else Interval(0, bounds(sb_)[1] - 1)
            return UnknownInt("arith")
        return Unknown("arith")
    # string concatenation / repetition
    if op == "Add" and (is_strlike(a) or is_strlike(b)):
        if (is_strlike(a) or _symstr(a)) and (is_strlike(b) or _symstr(b)):
            return concat_strs(it, [a, b], node)
        it.may_raise("TypeError", node, "can only concatenate str to str", certain=True)
    if op == "Mult" and (isinstance(a, str) and isinstance(b, int) or isinstance(a, int) and isinstance(b, str)):
        return a * b
    if op == "Mult" and isinstance(a, (AStr,)) and isinstance(b, int):
        return AStr.make(a.pos * b)
    if op == "Mod" and isinstance(a, str):
        vals = b if isinstance(b, tuple) else (b,)
        if all(isinstance(v, (str, int, float, bool)) or v is None for v in vals) and not isinstance(b, dict):
            # concrete operands: CPython's own answer
            try:
                return a % b
            except (TypeError, ValueError) as e:
                it.may_raise(type(e).__name__, node, str(e), certain=True)
        raise _CE("printf-style formatting")
    if op == "BitAnd" and isinstance(a, frozenset) and isinstance(b, frozenset):
        return a & b
    if op == "BitOr" and isinstance(a, frozenset) and isinstance(b, frozenset):
        return a | b
    if op == "BitOr" and isinstance(a, dict) and isinstance(b, dict):
        return {**a, **b}
    if op == "Add" and isinstance(a, (list, tuple)) and type(a) is type(b):
        return a + b
    if op == "Mult" and isinstance(a, (list, tuple)) and isinstance(b, int):
        return a * b
    if op == "Div" and isinstance(a0, Obj) is False and _is_path(a):
        return ("path",) + a[1:] + (b,)
    if isinstance(a, (Sym, SStr)) or isinstance(b, (Sym, SStr)):
        return Sym("binop", op, a, b)
    sa, sb = as_intset(a), as_intset(b)
    if sa is None or sb is None:
        if isinstance(a, float) or isinstance(b, float):
            try:
                return _PYOP[op](a, b)
            except ZeroDivisionError:
                it.may_raise("ZeroDivisionError", node, "division by zero", certain=True)
        raise _CE(f"binop {op} on {type(a).__name__}, {type(b).__name__}")
    if op in ("FloorDiv", "Mod", "Div"):
        lo, hi = bounds(sb)
        if lo <= 0 <= hi:
            zero_only = (lo == hi == 0)
            it.may_raise("ZeroDivisionError", node, "integer division or modulo by zero", certain=zero_only)
            if sb[0] == "set":
                sb = ("set", frozenset(x for x in sb[1] if x != 0))
            else:
                raise _CE("division by an interval containing zero")
    if sa[0] == "set" and sb[0] == "set" and len(sa[1]) * len(sb[1]) <= 400000:
        f = _PYOP[op]
        try:
            return mk_int(f(x, y) for x in sa[1] for y in sb[1])
        except OverflowError:
            raise _CE("overflow")
    alo, ahi = bounds(sa)
    blo, bhi = bounds(sb)
    if op == "Add":
        return Interval(alo + blo, ahi + bhi)
    if op == "Sub":
        return Interval(alo - bhi, ahi - blo)
    if op == "Mult":
        c = [alo * blo, alo * bhi, ahi * blo, ahi * bhi]
        return Interval(min(c), max(c))
    if op == "Mod" and blo == bhi and blo > 0:
        if alo >= 0 and ahi < blo:
            return a
        if ahi - alo + 1 >= blo or (alo % blo) > (ahi % blo):
            return mk_int(range(blo))
        return mk_int(range(alo % blo, ahi % blo + 1))
    if op == "FloorDiv" and blo == bhi and blo > 0:
        return Interval(alo // blo, ahi // blo)
    raise _CE(f"interval binop {op}")


_STR_METHODS = ("upper", "lower", "strip", "lstrip", "rstrip", "replace", "zfill", "casefold", "title", "translate", "removeprefix", "removesuffix")


def _symstr(v):
    """Opaque terms that are known to be strings."""
    if not isinstance(v, Sym):
        return False
    if v.kind in ("format", "concat", "str", "upper", "zfill", "resub", "replace", "slice"):
        return True
    if v.kind == "method" and len(v.args) > 1 and v.args[1] in _STR_METHODS:
        return True
    return v.kind == "call" and v.args and v.args[0] in ("unicodedata.normalize", "schwifty.bban.compute_national_checksum")


def _is_path(v):
    return isinstance(v, tuple) and v and v[0] == "path"


# ------------------------------------------------------------------------------------------------
# comparison

_CMP = {
    "Eq": lambda a, b: a == b, "NotEq": lambda a, b: a != b, "Lt": lambda a, b: a < b,
    "LtE": lambda a, b: a <= b, "Gt": lambda a, b: a > b, "GtE": lambda a, b: a >= b,
}
_NEG = {"Eq": "NotEq", "NotEq": "Eq", "Lt": "GtE", "GtE": "Lt", "Gt": "LtE", "LtE": "Gt",
        "In": "NotIn", "NotIn": "In", "Is": "IsNot", "IsNot": "Is"}


def _bools(results):
    s = set(results)
    if len(s) == 1:
        return s.pop()
    return VSet([True, False])


def user_cmp(it, op, a, b, node):
    """Dispatch ==, !=, < ... to __eq__/__lt__ defined in the package for Obj operands."""
    name = {"Eq": "__eq__", "NotEq": "__ne__", "Lt": "__lt__", "LtE": "__le__", "Gt": "__gt__", "GtE": "__ge__"}.get(op)
    if name is None:
        return None
    for x, y, nm in ((a, b, name), (b, a, {"__lt__": "__gt__", "__gt__": "__lt__", "__le__": "__ge__", "__ge__": "__le__"}.get(name, name))):
        if isinstance(x, Obj):
            r = x.cls.lookup(it.program, nm)
            if r is not None and r[1] == "method":
                return it.call_func(r[2], [x, y], {}, node)
            if nm == "__ne__":
                r = x.cls.lookup(it.program, "__eq__")
                if r is not None and r[1] == "method":
                    v = it.call_func(r[2], [x, y], {}, node)
                    t = truth_of(v)
                    if t is not None:
                        return not t
                    if isinstance(v, Sym):
                        return Sym("not", v)
                    return VSet([True, False])
    return None


def compare(it, op, a, b, node):
    if isinstance(a, Obj) or isinstance(b, Obj):
        if op in ("Is", "IsNot"):
            if isinstance(a, Obj) and isinstance(b, Obj):
                return (a is b) == (op == "Is")
            return op == "IsNot"
        r = user_cmp(it, op, a, b, node)
        if r is not None:
            return r
        a, b = strval(a), strval(b)
        if isinstance(a, Obj) or isinstance(b, Obj):
            if op == "Eq":
                return a is b
            if op == "NotEq":
                return a is not b
            raise _CE("ordering of objects")
    if op in ("Is", "IsNot"):
        pos = op == "Is"
        if a is None or b is None:
            other = b if a is None else a
            # a match result is None or a (truthy) Match object: `m is None` is exactly `not m`
            if isinstance(other, Sym) and other.kind in ("rematch", "rematch_abs"):
                return Sym("not", other) if pos else other
        if isinstance(a, (Sym, SStr)) or isinstance(b, (Sym, SStr)):
            return Sym("cmp", op, a, b)
        if a is None or b is None:
            other = b if a is None else a
            if isinstance(other, VSet):
                return _bools((x is None) == pos for x in other.vals)
            if isinstance(other, Unknown):
                return VSet([True, False])
            return (other is None) == pos
        if isinstance(a, bool) and isinstance(b, bool):
            return (a is b) == pos
        if isinstance(b, bool) and isinstance(a, VSet):
            return _bools((x is b) == pos for x in a.vals)
        if isinstance(a, (ClsRef, ExtRef)) and isinstance(b, (ClsRef, ExtRef)):
            return (a == b) == pos
        if isinstance(a, (dict, list)) or isinstance(b, (dict, list)):
            return (a is b) == pos   # containers are modelled by identity
        raise _CE(f"identity comparison of {a!r} and {b!r}")
    if op in ("In", "NotIn"):
        r = contains(it, b, a, node)
        if op == "In":
            return r
        t = truth_of(r)
        if t is not None:
            return not t
        if isinstance(r, Sym):
            return Sym("not", r)
        return r
    if isinstance(a, (Sym, SStr)) or isinstance(b, (Sym, SStr)):
        return Sym("cmp", op, a, b)
    if isinstance(a, Unknown) or isinstance(b, Unknown):
        return VSet([True, False])
    f = _CMP[op]
    # class / function identity
    if isinstance(a, (ClsRef, ExtRef, ModRef)) or isinstance(b, (ClsRef, ExtRef, ModRef)):
        if op in ("Eq", "NotEq"):
            return (a == b) == (op == "Eq")
    # numbers
    sa, sb = as_intset(a), as_intset(b)
    if sa is not None and sb is not None:
        if sa[0] == "set" and sb[0] == "set" and len(sa[1]) * len(sb[1]) <= 400000:
            return _bools(f(x, y) for x in sa[1] for y in sb[1])
        alo, ahi = bounds(sa)
        blo, bhi = bounds(sb)
        if op in ("Lt", "LtE", "Gt", "GtE"):
            if f(alo, bhi) and f(ahi, blo) and f(alo, blo) and f(ahi, bhi):
                return True
            if not (f(alo, bhi) or f(ahi, blo) or f(alo, blo) or f(ahi, bhi)):
                return False
            return VSet([True, False])
        if ahi < blo or bhi < alo:
            return op == "NotEq"
        return VSet([True, False])
    # strings
    if is_strlike(a) and is_strlike(b):
        return _str_compare(op, a, b)
    if isinstance(a, (list, tuple)) and isinstance(b, (list, tuple)) and op in ("Eq", "NotEq"):
        if len(a) != len(b) or type(a) is not type(b):
            return op == "NotEq"
        res = [compare(it, "Eq", x, y, node) for x, y in zip(a, b)]
        ts = [truth_of(r) for r in res]
        if any(t is False for t in ts):
            return op == "NotEq"
        if all(t is True for t in ts):
            return op == "Eq"
        return VSet([True, False])
    if not is_abstract(a) and not is_abstract(b):
        try:
            return f(a, b)
        except TypeError:
            if op in ("Eq", "NotEq"):
                return op == "NotEq"
            it.may_raise("TypeError", node, f"comparison of {type(a).__name__} and {type(b).__name__}", certain=True)
    if op in ("Eq", "NotEq"):
        # values of different kinds (e.g. str vs int) are never equal
        if (sa is not None and is_strlike(b)) or (sb is not None and is_strlike(a)):
            return op == "NotEq"
        if a is None or b is None:
            other = b if a is None else a
            if isinstance(other, VSet):
                return _bools((x is None) == (op == "Eq") for x in other.vals)
            return op == "NotEq"
    raise _CE(f"comparison {op} of {a!r} and {b!r}")


def _str_alternatives(v, cap=64):
    """Finite list of concrete strings, or None."""
    if isinstance(v, str):
        return [v]
    if isinstance(v, VSet):
        return list(v.vals)
    if isinstance(v, CharSet) and ND not in v.chars and OT not in v.chars:
        return list(v.chars)
    return None


def _pos_sets(v):
    """list of per-position char sets for fixed-length strings, else None"""
    if isinstance(v, str):
        return [frozenset(c) for c in v]
    if isinstance(v, CharSet):
        return [v.chars]
    if isinstance(v, AStr):
        return [p.chars if isinstance(p, CharSet) else frozenset(p) for p in v.pos]
    return None


def _str_compare(op, a, b):
    f = _CMP[op]
    la, lb = _str_alternatives(a), _str_alternatives(b)
    if la is not None and lb is not None and len(la) * len(lb) <= 100000:
        return _bools(f(x, y) for x in la for y in lb)
    if op in ("Eq", "NotEq"):
        pa, pb = _pos_sets(a), _pos_sets(b)
        eq = None
        if pa is not None and pb is not None:
            if len(pa) != len(pb):
                eq = False
            elif any(not (x & y) for x, y in zip(pa, pb)):
                eq = False
            elif all(len(x) == 1 and x == y and not (x & {ND, OT}) for x, y in zip(pa, pb)):
                eq = True
        elif pa is not None or pb is not None:
            p, o = (pa, b) if pa is not None else (pb, a)
            if isinstance(o, VSet):
                if not any(len(s) == len(p) and all(c in ps for c, ps in zip(s, p)) for s in o.vals):
                    eq = False
            elif isinstance(o, ABag):
                if not (o.lo <= len(p) <= o.hi) or any(not (ps & o.cs.chars) for ps in p):
                    eq = False
        if eq is None:
            return VSet([True, False])
        return eq == (op == "Eq")
    return VSet([True, False])


def contains(it, container, item, node):
    item = strval(item)
    container = strval(container)
    if isinstance(container, (Sym, SStr)) or isinstance(item, (Sym, SStr)):
        return Sym("in", item, freeze(container))
    if isinstance(container, dict):
        if isinstance(item, (VSet, CharSet)):
            return _bools(_elem_key(e) in container for e in elements(item))
        if is_abstract(item):
            return VSet([True, False])
        try:
            return item in container
        except TypeError:
            it.may_raise("TypeError", node, "unhashable", certain=True)
    if isinstance(container, (list, tuple, frozenset, set)):
        if is_abstract(item):
            if isinstance(item, (VSet, CharSet)):
                res = []
                for e in elements(item):
                    if isinstance(e, CharSet):
                        res.append(False)
                    else:
                        res.append(any(truth_of(compare(it, "Eq", e, c, node)) is not False for c in container) and
                                   _definitely_in(it, e, container, node))
                # elements: decide each precisely when container is concrete
                if all(not is_abstract(c) for c in container):
                    return _bools((e in container) if not isinstance(e, CharSet) else False for e in elements(item))
                return VSet([True, False])
            if isinstance(item, Interval) and all(isinstance(c, int) for c in container):
                if not any(item.lo <= c <= item.hi for c in container):
                    return False
                return VSet([True, False])
            if isinstance(item, (AStr, ABag)):
                rs = [compare(it, "Eq", item, c, node) for c in container]
                if all(truth_of(r) is False for r in rs):
                    return False
                return VSet([True, False])
            return VSet([True, False])
        if any(is_abstract(c) for c in container):
            rs = [truth_of(compare(it, "Eq", item, c, node)) for c in container]
            if any(r is True for r in rs):
                return True
            if all(r is False for r in rs):
                return False
            return VSet([True, False])
        return item in container
    if isinstance(container, range):
        sset = as_intset(item)
        if sset is None:
            return False if not isinstance(item, (Unknown,)) else VSet([True, False])
        if sset[0] == "set":
            return _bools(x in container for x in sset[1])
        lo, hi = sset[1], sset[2]
        if len(container) == 0 or hi < min(container[0], container[-1]) or lo > max(container[0], container[-1]):
            return False
        if container.step == 1 and container[0] <= lo and hi <= container[-1]:
            return True
        return VSet([True, False])
    if isinstance(container, str):
        if isinstance(item, str):
            return item in container
        if isinstance(item, CharSet):
            return _bools((e in container) if isinstance(e, str) else False for e in elements(item))
        if isinstance(item, VSet):
            return _bools(e in container for e in item.vals)
        return VSet([True, False])
    if isinstance(container, (AStr, ABag, CharSet, VSet)):
        return VSet([True, False])
    if container is None or isinstance(container, (bool, int, float)):
        it.may_raise("TypeError", node, f"argument of type {type(container).__name__!r} is not iterable", certain=True)
    raise _CE(f"membership in {container!r}")


def _definitely_in(it, e, container, node):
    return True


def _elem_key(e):
    return e


def partition(it, op, val, const):
    """Split a finite abstract value by `elem <op> const` -> (yes, no) (None if empty)."""
    yes, no = [], []
    for e in elements(val):
        if isinstance(e, CharSet):  # ND / OT atom
            r = compare(it, op, e, const, None) if op not in ("In", "NotIn") else contains(it, const, e, None)
            if op == "NotIn":
                t = truth_of(r)
                r = (not t) if t is not None else r
            t = truth_of(r)
            if t is None:
                return None, None
            (yes if t else no).append(e)
            continue
        if op in ("In", "NotIn"):
            t = truth_of(contains(it, const, e, None))
            if t is None:
                return None, None
            if op == "NotIn":
                t = not t
        else:
            t = truth_of(compare(it, op, e, const, None))
            if t is None:
                return None, None
        (yes if t else no).append(e)
    if not yes or not no:
        return None, None
    return join_values(yes), join_values(no)


# ------------------------------------------------------------------------------------------------
# strings

def to_str(it, v, node=None):
    """str(v)"""
    if isinstance(v, Obj):
        if v.strval is not None:
            r = v.cls.lookup(it.program, "__str__")
            if r is not None and r[1] == "method":
                return it.call_func(r[2], [v], {}, node)
            return v.strval
        raise _CE("str() of object")
    if isinstance(v, (str, AStr, ABag, SStr, CharSet)):
        return v
    if isinstance(v, bool) or v is None:
        return str(v)
    if isinstance(v, int):
        return str(v)
    if isinstance(v, VSet):
        return join_values([to_str(it, x, node) for x in v.vals])
    if isinstance(v, Interval):
        if v.lo >= 0:
            return ABag(len(str(v.lo)), len(str(v.hi)), CharSet(ASCII_DIGITS))
        return ABag(1, max(len(str(v.lo)), len(str(v.hi))), CharSet(ASCII_DIGITS + "-"))
    if isinstance(v, Sym):
        if _symstr(v) or (v.kind == "method" and v.args[1] in ("upper", "lower", "strip", "lstrip", "rstrip", "replace", "zfill")):
            return v
        return Sym("str", v)
    if isinstance(v, ExcVal):
        return str(v.args[0]) if v.args and isinstance(v.args[0], str) else Unknown("str(exc)")
    if isinstance(v, Unknown):
        return v
    if isinstance(v, float):
        return str(v)
    raise _CE(f"str() of {v!r}")


def format_value(it, v, conversion, spec, node):
    if conversion == ord("r"):
        s = to_str(it, v, node)
        if isinstance(s, str):
            return repr(s)
        return Unknown("repr")
    if spec in (None, ""):
        return to_str(it, v, node)
    v = strval(v)
    if isinstance(v, (Sym, SStr)):
        return Sym("format", v, spec)
    if isinstance(v, VSet):
        return join_values([format(x, spec) for x in v.vals])
    if isinstance(v, Interval):
        if v.hi - v.lo <= 4096:
            return join_values([format(x, spec) for x in range(v.lo, v.hi + 1)])
        return Unknown("format of wide interval")
    if isinstance(v, (int, str, float)):
        try:
            return format(v, spec)
        except ValueError as e:
            it.may_raise("ValueError", node, str(e), certain=True)
    raise _CE(f"format of {v!r}")


def concat_strs(it, parts, node):
    parts = [strval(p) for p in parts]
    if any(isinstance(p, Unknown) for p in parts):
        return Unknown("concat")
    if any(isinstance(p, Sym) for p in parts):
        flat = []
        for p in parts:
            if isinstance(p, Sym) and p.kind == "concat":
                flat.extend(p.args[0])
            elif p != "":
                flat.append(p)
        if len(flat) == 1:
            return flat[0]
        return Sym("concat", tuple(flat))
    if any(isinstance(p, SStr) for p in parts):
        if all(isinstance(p, (str, SStr)) for p in parts):
            return SStr.concat(parts)
        return Sym("concat", tuple(parts))
    if all(isinstance(p, str) for p in parts):
        return "".join(parts)
    # VSet of strings: expand when small
    alts = [[]]
    bag = False
    for p in parts:
        if isinstance(p, VSet):
            lens = {len(x) for x in p.vals}
            if len(lens) == 1 and lens == {1}:
                alts = [a + [CharSet(p.vals)] for a in alts]
            elif len(alts) * len(p.vals) <= 256:
                alts = [a + [x] for a in alts for x in p.vals]
            else:
                bag = True
                break
        elif isinstance(p, ABag):
            bag = True
            break
        else:
            alts = [a + [p] for a in alts]
    if bag:
        lo = hi = 0
        cs = set()
        for p in parts:
            if isinstance(p, str):
                lo += len(p); hi += len(p); cs.update(p)
            elif isinstance(p, CharSet):
                lo += 1; hi += 1; cs.update(p.chars)
            elif isinstance(p, AStr):
                lo += len(p); hi += len(p); cs.update(p.charset().chars)
            elif isinstance(p, ABag):
                lo += p.lo; hi += p.hi; cs.update(p.cs.chars)
            elif isinstance(p, VSet):
                lo += min(len(x) for x in p.vals); hi += max(len(x) for x in p.vals)
                for x in p.vals:
                    cs.update(x)
            else:
                raise _CE(f"concat of {p!r}")
        return ABag(lo, hi, CharSet(cs))
    results = []
    for a in alts:
        pos = []
        for p in a:
            if isinstance(p, str):
                pos.extend(p)
            elif isinstance(p, CharSet):
                pos.append(p)
            elif isinstance(p, AStr):
                pos.extend(p.pos)
            else:
                raise _CE(f"concat of {p!r}")
        results.append(AStr.make(pos))
    return join_values(results) if len(results) > 1 else results[0]


def str_index_value(v, i):
    if isinstance(v, str):
        return v[i]
    if isinstance(v, AStr):
        return v.pos[i]
    raise _CE("index")


def slice_value(it, base, lo, hi, step, node):
    base = strval(base)
    for b in (lo, hi, step):
        if is_abstract(b):
            if isinstance(base, (Sym, SStr)):
                return Sym("slice", base, lo, hi, step)
            raise _CE("abstract slice bound")
    if isinstance(base, SStr):
        if step is not None:
            return Sym("slice", base, lo, hi, step)
        if (lo is not None and lo < 0) or (hi is not None and hi < 0):
            return Sym("slice", base, lo, hi, step)
        if (lo in (None, 0)) and hi is None:
            return base
        return SStr(("slice", base.term, lo or 0, hi), base.clean)
    if isinstance(base, Sym):
        return Sym("slice", base, lo, hi, step)
    if isinstance(base, (str, list, tuple)):
        return base[slice(lo, hi, step)]
    if isinstance(base, AStr):
        return AStr.make(base.pos[slice(lo, hi, step)])
    if isinstance(base, ABag):
        n = base.hi
        idx = range(n)[slice(lo, hi, step)]
        return ABag(0, len(idx), base.cs)
    if isinstance(base, VSet):
        return join_values([x[slice(lo, hi, step)] for x in base.vals])
    if isinstance(base, CharSet):
        return slice_value(it, AStr([base]), lo, hi, step, node)
    if isinstance(base, Unknown):
        return base
    raise _CE(f"slice of {base!r}")


def subscript(it, base, idx, node):
    base0 = base
    base = tupval(it, strval(base))
    idx = strval(idx) if isinstance(idx, Obj) else idx
    if isinstance(base, Unknown):
        return Unknown("subscript")
    if isinstance(base, DefaultDict) and not is_abstract(idx):
        try:
            if idx not in base:
                it.event("mutate", obj=base, op="defaultdict-insert", node=node)
                base[idx] = it.call(base.factory, [], {}, node)
            return base[idx]
        except TypeError:
            it.may_raise("TypeError", node, "unhashable key", certain=True)
    if isinstance(base, dict):
        if isinstance(idx, (VSet, CharSet)):
            good, bad = [], []
            for e in elements(idx):
                if not isinstance(e, CharSet) and e in base:
                    good.append(base[e])
                else:
                    bad.append(e)
            if bad:
                it.may_raise("KeyError", node, f"key {bad[0]!r}", certain=not good, witness=bad[0])
            return join_values(good)
        if isinstance(idx, SStr) or isinstance(idx, Sym):
            return it_symbolic_key(it, base, idx, node)
        if is_abstract(idx):
            keys = [k for k in base if isinstance(k, str)]
            maybe = [k for k in keys if truth_of(compare(it, "Eq", idx, k, node)) is not False]
            it.may_raise("KeyError", node, f"key {idx!r}", certain=not maybe, witness=idx)
            return join_values([base[k] for k in maybe])
        try:
            if idx in base:
                return materialise(it, base[idx], node)
        except TypeError:
            it.may_raise("TypeError", node, "unhashable key", certain=True)
        it.may_raise("KeyError", node, f"key {idx!r}", certain=True, witness=idx)
    if isinstance(base, (str, list, tuple, AStr)):
        n = len(base)
        s = as_intset(idx)
        if s is None:
            if isinstance(idx, (Sym, SStr)):
                return Sym("item", freeze(base), idx)
            it.may_raise("TypeError", node, "indices must be integers", certain=True)
        if s[0] == "iv":
            raise _CE("interval index")
        good = [i for i in s[1] if -n <= i < n]
        bad = [i for i in s[1] if not (-n <= i < n)]
        if bad:
            it.may_raise("IndexError", node, f"index {bad[0]} out of range for length {n}", certain=not good, witness=bad[0])
        vals = [base[i] if not isinstance(base, AStr) else base.pos[i] for i in good]
        return vals[0] if len(vals) == 1 else join_values(vals)
    if isinstance(base, ABag):
        s = as_intset(idx)
        if s is None or s[0] != "set":
            raise _CE("bag index")
        if any(not (-base.lo <= i < base.lo) for i in s[1]):
            it.may_raise("IndexError", node, "string index out of range", certain=base.hi == 0 or all(not (-base.hi <= i < base.hi) for i in s[1]))
        return base.cs
    if isinstance(base, VSet) and all(isinstance(x, str) for x in base.vals):
        s = as_intset(idx)
        if s is None or s[0] != "set" or len(s[1]) != 1:
            raise _CE("index into string set")
        (i,) = s[1]
        good = [x[i] for x in base.vals if -len(x) <= i < len(x)]
        if len(good) < len(base.vals):
            it.may_raise("IndexError", node, "string index out of range", certain=not good)
        return join_values(good)
    if isinstance(base, CharSet):
        return subscript(it, AStr([base]), idx, node)
    if isinstance(base, SStr):
        if isinstance(idx, int) and idx >= 0:
            return Sym("char", base, idx)
        return Sym("item", base, idx)
    if isinstance(base, Sym):
        return Sym("item", base, freeze(idx))
    if isinstance(base, (ClsRef, ExtRef)):
        return base  # generic alias: dict[str, Any]
    if isinstance(base, ExcVal):
        raise _CE("subscript of exception")
    raise _CE(f"subscript of {base!r}")


_RAISE_KEYERROR = object()


def it_symbolic_key(it, table, key, node, default=_RAISE_KEYERROR):
    """dict lookup with a symbolic string key: fork over the keys, and the miss (KeyError, or ``default`` for dict.get)."""
    keys = [k for k in table if isinstance(k, str)]
    known = None
    th = it.theory
    if hasattr(th, "known_value"):
        known = th.known_value(key)
    if known is not None:
        if known in table:
            return table[known]
        if default is not _RAISE_KEYERROR:
            return default
        it.may_raise("KeyError", node, f"key {known!r}", certain=True, witness=known)
    if hasattr(th, "register_keyset"):
        th.register_keyset(id(table), keys)
    if len(keys) > 512 and hasattr(th, "register_keyset"):
        # a registry-sized table (thousands of bank codes / BICs) asked for the text under validation: one path for "listed" (the entry itself
        # is not followed), one for the miss; the path condition carries the membership in the key set as a finite language
        miss = Sym("in", key, ("keys", id(table)))
        c = it.choose(2, "large table")
        if c == 0:
            th.assume(miss, True)
            it.assumptions.append((miss, True))
            return Unknown("entry of a registry-sized table")
        th.assume(miss, False)
        it.assumptions.append((miss, False))
        if default is not _RAISE_KEYERROR:
            return default
        it.may_raise("KeyError", node, f"key {key!r} not in table", certain=True, witness=key)
    feasible = None
    if hasattr(th, "feasible_keys"):
        feasible = th.feasible_keys(key, keys)
    if feasible is None:
        feasible = []
        for k in keys:
            d = th.decide(Sym("cmp", "Eq", key, k))
            if d is True:
                return table[k]
            if d is None:
                feasible.append(k)
    miss = Sym("in", key, ("keys", id(table)))
    if hasattr(th, "register_keyset"):
        th.register_keyset(id(table), keys)
    dm = th.decide(Sym("not", miss))
    options = list(feasible)
    n = len(options) + (0 if dm is False else 1)
    c = it.choose(n, "dict key")
    if c < len(options):
        k = options[c]
        cond = Sym("cmp", "Eq", key, k)
        th.assume(cond, True)
        it.assumptions.append((cond, True))
        return table[k]
    th.assume(miss, False)
    it.assumptions.append((miss, False))
    if default is not _RAISE_KEYERROR:
        return default
    it.may_raise("KeyError", node, f"key {key!r} not in table", certain=True, witness=key)


def unpack(it, v, n, node):
    v = tupval(it, strval(v))
    if isinstance(v, (list, tuple)):
        if len(v) != n:
            it.may_raise("ValueError", node, f"unpack: expected {n} values, got {len(v)}", certain=True, witness=len(v))
        return list(v)
    if isinstance(v, (str, AStr)):
        if len(v) != n:
            it.may_raise("ValueError", node, f"unpack: expected {n} values, got {len(v)}", certain=True)
        return [v[i] if isinstance(v, str) else v.pos[i] for i in range(n)]
    if isinstance(v, ExcVal):
        raise _CE("unpack exception")
    raise _CE(f"unpack of {v!r}")


def iterate(it, v, node):
    v = tupval(it, strval(v))
    if isinstance(v, (list, tuple)):
        return list(v)
    if isinstance(v, str):
        return list(v)
    if isinstance(v, AStr):
        return list(v.pos)
    if isinstance(v, dict):
        return list(v.keys())
    if isinstance(v, (frozenset, set)):
        it.event("set_iteration", node=node, value=v)
        return sorted(v, key=repr)
    if isinstance(v, range):
        return list(v)
    if isinstance(v, CycleVal):
        raise _CE("unbounded iteration over cycle()")
    if isinstance(v, CharSet):
        return [v]
    if isinstance(v, ClsRef):
        members = enum_members(it, v.cls)
        if members is not None:
            return members
    if isinstance(v, ZipVal):
        return v.items(it, node)
    if isinstance(v, VSet) and all(isinstance(x, str) for x in v.vals):
        lens = {len(x) for x in v.vals}
        if len(lens) == 1:
            n = lens.pop()
            return [join_values([x[i] for x in v.vals]) for i in range(n)]
    raise _CE(f"iteration over {v!r}")


class ZipVal:
    def __init__(self, seqs):
        self.seqs = seqs

    def items(self, it, node):
        finite = []
        for s in self.seqs:
            if isinstance(s, CycleVal):
                if id(s) in it.shared_ids:
                    # an iterator object created once: every zip() over it consumes items, later calls start elsewhere
                    it.event("mutate", obj=s, op="consumption of a shared iterator (itertools.cycle)", node=node,
                             shared=it.shared_ids[id(s)], where=it._where(node),
                             func=it.cur_frame.func.short if getattr(it, "cur_frame", None) and it.cur_frame.func else None)
                finite.append(None)
            else:
                finite.append(iterate(it, s, node))
        lens = [len(f) for f in finite if f is not None]
        if not lens:
            raise _CE("zip of only infinite iterables")
        n = min(lens)
        cols = []
        for s, f in zip(self.seqs, finite):
            if f is None:
                if not s.items:
                    n = 0
                    cols.append([])
                else:
                    cols.append([s.items[i % len(s.items)] for i in range(n)])
            else:
                cols.append(f[:n])
        return [tuple(c[i] for c in cols) for i in range(n)]


# ------------------------------------------------------------------------------------------------
# classes: dataclasses, enums, super

def namedtuple_fields(it, cls):
    """Field names of a class-syntax typing.NamedTuple (annotated names of the class body, in order), else None."""
    prog = it.program
    if not any(e.split(".")[-1] == "NamedTuple" for e in cls.ext_bases(prog)):
        return None
    order = []
    for c in cls.mro(prog):
        if any(isinstance(b, str) and b.split(".")[-1] == "NamedTuple" for b in c.resolve_bases(prog)):
            for st in c.node.body:
                if isinstance(st, ast.AnnAssign) and isinstance(st.target, ast.Name):
                    order.append(st.target.id)
            break
    return order


def make_namedtuple(it, cls, args, kwargs, node):
    order = namedtuple_fields(it, cls)
    obj = Obj(cls)
    if len(args) > len(order):
        it.may_raise("TypeError", node, f"{cls.short}() takes {len(order)} positional arguments", certain=True)
    vals = dict(zip(order, args))
    for k, v in kwargs.items():
        if k not in order or k in vals:
            it.may_raise("TypeError", node, f"{cls.short}() bad keyword {k!r}", certain=True)
        vals[k] = v
    for nm in order:
        if nm not in vals:
            r = cls.lookup(it.program, nm)
            if r is None or r[1] != "attr":
                it.may_raise("TypeError", node, f"{cls.short}() missing argument {nm!r}", certain=True)
            vals[nm] = it.class_attr(r[0], nm)
        obj.attrs[nm] = vals[nm]
    return obj


def tupval(it, v):
    """The tuple a NamedTuple instance is; other values unchanged."""
    if isinstance(v, Obj) and v.strval is None:
        order = namedtuple_fields(it, v.cls)
        if order is not None:
            return tuple(v.attrs[f] for f in order)
    return v


def is_dataclass(cls):
    return any((dotted(d) or dotted(getattr(d, "func", None)) or "").split(".")[-1] == "dataclass" for d in cls.decorators)


def make_dataclass(it, cls, args, kwargs, node):
    fields = []
    for c in reversed(cls.mro(it.program)):
        for k, nm, st in c.body_order:
            if k == "attr" and isinstance(st, ast.AnnAssign) and nm not in [f[0] for f in fields]:
                fields.append((nm, c, True))
        for nm in c.annotations:
            if nm not in [f[0] for f in fields]:
                fields.append((nm, c, nm in c.attrs))
    # keep declaration order
    order = []
    for c in reversed(cls.mro(it.program)):
        for st in c.node.body:
            if isinstance(st, ast.AnnAssign) and isinstance(st.target, ast.Name) and st.target.id not in order:
                order.append(st.target.id)
    obj = Obj(cls)
    if len(args) > len(order):
        it.may_raise("TypeError", node, f"{cls.short}() takes {len(order)} positional arguments", certain=True)
    vals = dict(zip(order, args))
    for k, v in kwargs.items():
        if k not in order or k in vals:
            it.may_raise("TypeError", node, f"{cls.short}() bad keyword {k!r}", certain=True)
        vals[k] = v
    for nm in order:
        if nm not in vals:
            r = cls.lookup(it.program, nm)
            if r is None or r[1] != "attr":
                it.may_raise("TypeError", node, f"{cls.short}() missing argument {nm!r}", certain=True)
            vals[nm] = it.class_attr(r[0], nm)
        obj.attrs[nm] = vals[nm]
    return obj


def _is_enum(it, cls):
    return any(e.split(".")[-1] == "Enum" for e in cls.ext_bases(it.program))


def enum_members(it, cls):
    if not _is_enum(it, cls):
        return None
    out = []
    for k, nm, st in cls.body_order:
        if k == "attr" and not nm.startswith("_"):
            out.append(enum_member(it, cls, nm))
    return out


class EnumVal(str):
    """str-valued enum member (Component): behaves as its value, remembers its name."""

    def __new__(cls, value, name, enum_cls):
        o = str.__new__(cls, value)
        o.member_name = name
        o.enum_cls = enum_cls
        return o

    @property
    def value(self):
        return str.__str__(self)


def enum_member(it, cls, name):
    if not _is_enum(it, cls) or name not in cls.attrs or name.startswith("_"):
        return None
    v = it.class_attr(cls, name)
    if isinstance(v, str) and "str" in cls.ext_bases(it.program):
        return EnumVal(v, name, cls)
    raise _CE("non-str enum")


class SuperProxy:
    def __init__(self, after_cls, obj):
        self.after_cls = after_cls
        self.obj = obj

    def getattr(self, it, name, node):
        obj = self.obj
        start = obj.cls if isinstance(obj, (Obj, ClsRef)) else None
        if start is None:
            raise _CE("super() receiver")
        r = start.lookup_after(it.program, self.after_cls, name)
        if r is not None:
            c, kind, member = r
            if kind == "method":
                if member.kind == "property":
                    return it.call_func(member, [obj], {}, node)
                if member.kind == "staticmethod":
                    return FuncRef(member)
                if name == "__new__":
                    return FuncRef(member)
                return Bound(member, obj)
            return it.class_attr(c, name)
        exts = start.ext_bases(it.program)
        if name == "__new__":
            return SuperNew(exts)
        if name == "__init__":
            return _intrinsic(lambda it_, a, k, n: None)
        raise _CE(f"super().{name} resolves outside the package")


class SuperNew:
    def __init__(self, exts):
        self.exts = exts

    def __call__(self, it, args, kwargs, node):
        if not args or not isinstance(args[0], ClsRef):
            raise _CE("__new__ without class")
        cls = args[0].cls
        if "str" in self.exts:
            if len(args) != 2 or kwargs:
                it.may_raise("TypeError", node, "str.__new__ argument mismatch", certain=True)
            return Obj(cls, strval=to_str(it, args[1], node))
        if len(args) > 1 or kwargs:
            init = cls.lookup(it.program, "__init__")
            if init is None:
                it.may_raise("TypeError", node, "object.__new__ takes exactly one argument", certain=True)
        return Obj(cls)


def _intrinsic(f):
    f._sv_intrinsic = True
    return f


def func_has_side_effects(func):
    for n in ast.walk(func.node):
        if isinstance(n, (ast.Global, ast.Nonlocal)):
            return True
        if isinstance(n, (ast.Assign, ast.AugAssign, ast.AnnAssign)):
            targets = n.targets if isinstance(n, ast.Assign) else [n.target]
            for t in targets:
                for x in ast.walk(t):
                    if isinstance(x, ast.Attribute) and isinstance(x.ctx, ast.Store):
                        return True
    return False


# ------------------------------------------------------------------------------------------------
# values of external names

def ext_value(name):
    if name.startswith("string."):
        attr = name.split(".", 1)[1]
        if attr in ("digits", "ascii_uppercase", "ascii_lowercase", "ascii_letters", "punctuation", "hexdigits", "whitespace"):
            return getattr(_string, attr)
    return ExtRef(name)


def special_module_const(it, module, name):
    return None


def value_attr(it, base, name, node):
    """Attribute of a non-package value: bound library method."""
    b = strval(base)
    if isinstance(b, (str, AStr, ABag, SStr, CharSet)) or (isinstance(b, VSet) and all(isinstance(x, str) for x in b.vals)):
        if isinstance(b, EnumVal) and name == "value":
            return b.value
        if isinstance(b, EnumVal) and name == "name":
            return b.member_name
        return ExtRef("str." + name, recv=base)
    if isinstance(b, list):
        return ExtRef("list." + name, recv=b)
    if isinstance(b, dict):
        return ExtRef("dict." + name, recv=b)
    if isinstance(b, tuple) and b and b[0] == "path":
        if name == "stem":
            return b[-1].rsplit(".", 1)[0] if isinstance(b[-1], str) else Unknown("stem")
        if name == "parent":
            return b[:-1]
        if name == "name":
            return b[-1]
        if name == "suffix":
            return "." + b[-1].rsplit(".", 1)[1] if isinstance(b[-1], str) and "." in b[-1] else ""
        return ExtRef("Path." + name, recv=b)
    if isinstance(b, (frozenset, set)):
        return ExtRef("set." + name, recv=b)
    if isinstance(b, RegexVal):
        if name == "pattern":
            return b.pattern
        return ExtRef("Pattern." + name, recv=b)
    if isinstance(b, Sym):
        return ExtRef("sym." + name, recv=b)
    if isinstance(b, Unknown):
        return ExtRef("unknown." + name, recv=b)
    if isinstance(b, MatchVal):
        return ExtRef("Match." + name, recv=b)
    if isinstance(b, RandVal):
        return ExtRef("Random." + name, recv=b)
    if isinstance(b, RstrVal):
        return ExtRef("Rstr." + name, recv=b)
    if isinstance(b, int):
        raise _CE(f"int attribute {name}")
    raise _CE(f"attribute {name} of {b!r}")


class RandVal:
    """A random.Random instance: ``seeded`` False when built without arguments (OS entropy)."""

    def __init__(self, seeded, origin=None):
        self.seeded = seeded
        self.origin = origin


class RstrVal:
    def __init__(self, gen):
        self.gen = gen


class FileVal:
    """An open (virtual) file."""

    def __init__(self, path):
        self.path = path


class DefaultDict(dict):
    """collections.defaultdict(list) model."""

    def __init__(self, factory):
        super().__init__()
        self.factory = factory


class LazyInstance:
    """Table entry standing for 'the instance created at import': materialised fresh per lookup."""

    def __init__(self, cls):
        self.cls = cls


def materialise(it, v, node=None):
    if isinstance(v, LazyInstance):
        return it.instantiate(v.cls, [], {}, node)
    return v


class MatchVal:
    def __init__(self, m):
        self.m = m


from .libmodel import call_ext  # noqa: E402  (library model lives in its own module)
