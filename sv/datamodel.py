"""E5 — the checker's own loader for the bundled registries.

Written from the two README files and the statement of C18 (file-name order, deep later-wins
merge for dict registries, concatenation for list registries, ``*.v2.json`` expansion) — not
from registry.py.  C18's rules check that registry.py implements the same composition.
"""
from __future__ import annotations

import copy
import json
import os
import re

from .srcmodel import AnalysisError

COMPONENTS_DOC = (
    "account_id", "account_type", "account_code", "account_holder_id", "currency_code",
    "bank_code", "branch_code", "national_checksum_digits",
)

_TOKEN = re.compile(r"(\d+)(!)?([nace])")


def deep_merge(left, right):
    out = dict(left)
    for k, v in right.items():
        if k in out and isinstance(out[k], dict) and isinstance(v, dict):
            out[k] = deep_merge(out[k], v)
        else:
            out[k] = v
    return out


def expand_v2(doc, path):
    try:
        src, dst, entries = doc["expand_from"], doc["expand_into"], doc["entries"]
    except (KeyError, TypeError):
        raise AnalysisError(f"{path}: not a v2 document (entries/expand_from/expand_into)")
    out = []
    for e in entries:
        rest = {k: v for k, v in e.items() if k != src}
        rest.setdefault("primary", False)
        for value in e[src]:
            item = dict(rest)
            item[dst] = value
            out.append(item)
    return out


def parse_structure(spec):
    """'4!n4!n12!c' -> list of (class_letter, fixed: bool) per position, or None if malformed.

    A token without '!' is a variable-length field 1..N; returned as ('x', N, cls) marker."""
    pos = 0
    out = []
    for m in _TOKEN.finditer(spec):
        if m.start() != pos:
            return None
        pos = m.end()
        n, bang, cls = int(m.group(1)), m.group(2), m.group(3)
        if not bang:
            out.append(("var", n, cls))
        else:
            out.extend([cls] * n)
    if pos != len(spec):
        return None
    return out


class Registry:
    def __init__(self, root, package="schwifty"):
        self.root = os.path.abspath(root)
        self.pkgdir = os.path.join(self.root, package)
        self.files = {"iban": [], "bank": []}
        self.countries = self._load_dict("iban")
        self.banks, self.bank_origin = self._load_list("bank")

    def _listing(self, name):
        d = os.path.join(self.pkgdir, f"{name}_registry")
        if not os.path.isdir(d):
            raise AnalysisError(f"anchor vanished: {d}")
        fns = sorted(f for f in os.listdir(d) if f.endswith(".json"))
        if not fns:
            raise AnalysisError(f"no JSON files in {d}")
        return d, fns

    def _read(self, path):
        try:
            with open(path, encoding="utf-8") as fp:
                return json.load(fp)
        except (OSError, ValueError) as e:
            raise AnalysisError(f"cannot read {path}: {e}")

    def _load_dict(self, name):
        d, fns = self._listing(name)
        data = None
        for fn in fns:
            doc = self._read(os.path.join(d, fn))
            self.files[name].append(fn)
            if not isinstance(doc, dict):
                raise AnalysisError(f"{fn}: expected a JSON object")
            data = doc if data is None else deep_merge(data, doc)
        return data

    def _load_list(self, name):
        d, fns = self._listing(name)
        data, origin = [], []
        for fn in fns:
            doc = self._read(os.path.join(d, fn))
            self.files[name].append(fn)
            stem = fn[: -len(".json")]
            if stem.endswith("v2"):
                doc = expand_v2(doc, fn)
            if not isinstance(doc, list):
                raise AnalysisError(f"{fn}: expected a JSON list")
            for i, e in enumerate(doc):
                data.append(e)
                origin.append((fn, i))
        return data, origin

    # ---- derived views ------------------------------------------------------
    def country_copy(self):
        return copy.deepcopy(self.countries)

    def structure(self, cc):
        spec = self.countries[cc].get("bban_spec")
        if not isinstance(spec, str):
            return None
        return parse_structure(spec)

    def positions(self, cc):
        return self.countries[cc].get("positions") or {}

    def lookup_components(self, cc):
        return self.countries[cc].get("bic_lookup_components", ["bank_code"])

    def index_by_country(self):
        out = {}
        for e in self.banks:
            k = e.get("country_code")
            if k:
                out.setdefault(k, []).append(e)
        return out

    def index_by_bank_code(self):
        out = {}
        for e in self.banks:
            k = (e.get("country_code"), e.get("bank_code"))
            if k[0] and k[1]:
                out.setdefault(k, []).append(e)
        return out

    def index_by_bic(self):
        out = {}
        for e in self.banks:
            k = e.get("bic")
            if k:
                out.setdefault(k, []).append(e)
        return out
