"""Model of the registry module as seen by the rest of the package.

``registry.get(name)`` is answered from the checker's own data model (datamodel.py) — C18's rules
check separately that registry.py composes the files the same way.  Import-time manipulation
(``registry.manipulate("iban", add_bban_regex)``) is evaluated with the abstract evaluator on the
concrete table, so whatever the tree's ``convert_bban_spec_to_regex`` produces is what the rules see.
"""
from __future__ import annotations

import ast
import copy

from .interp import CannotEvaluate, Frame, Raised
from .srcmodel import AnalysisError, Func, Module
from .values import ExcVal, FuncRef, Unknown


REGISTRY_TARGETS = ("build_index", "manipulate", "get", "save")


class ImportCall:
    """One call of registry.<target> made while the package is imported (directly at module level or through package functions
    that module-level code calls)."""
    __slots__ = ("target", "args", "kwargs", "module", "node", "lineno")

    def __init__(self, target, args, kwargs, module, node):
        self.target, self.args, self.kwargs, self.module, self.node = target, list(args), dict(kwargs), module, node
        self.lineno = getattr(node, "lineno", 0)

    def bound(self, program):
        f = program.get("schwifty.registry." + self.target)
        params = f.params()
        b = dict(zip(params, self.args))
        extra = {}
        for k, v in self.kwargs.items():
            (b if k in params else extra)[k] = v
        return b, extra


def import_time_registry_calls(program):
    """Every call of registry.build_index / manipulate / get / save that happens at import: each module-level statement from which
    such a call is reachable is evaluated by the abstract evaluator with recording stand-ins for the four functions (the arguments are
    therefore values, whatever expression or helper function produced them).  Result cached on the program."""
    cached = getattr(program, "_import_time_registry_calls", None)
    if cached is not None:
        return cached
    from .effects import Effects
    from .interp import Interp, PathLimit
    eff = Effects(program)
    targets = {}
    for t in REGISTRY_TARGETS:
        f = program.find("schwifty.registry." + t)
        if isinstance(f, Func):
            targets[id(f)] = t
    out = []
    for mname in sorted(program.modules):
        mod = program.modules[mname]
        for st in mod.toplevel:
            if isinstance(st, (ast.FunctionDef, ast.AsyncFunctionDef, ast.ClassDef, ast.Import, ast.ImportFrom)):
                continue
            callees = []
            for n in ast.walk(st):
                if isinstance(n, ast.Call) and isinstance(n.func, (ast.Name, ast.Attribute)):
                    d = program.resolve_expr(mod, n.func)
                    if isinstance(d, Func):
                        callees.append(d)
            if not callees:
                continue
            reach = eff.reachable(callees)
            if not any(fid in targets for fid in reach):
                continue
            it = Interp(program)
            rec = []
            cur = {"node": st}

            def mk(t):
                def stand_in(it_, args, kwargs, node, t=t):
                    fr = getattr(it_, "cur_frame", None)
                    where_mod = fr.module if fr is not None else mod
                    rec.append(ImportCall(t, args, kwargs, where_mod, node if node is not None else cur["node"]))
                    return Unknown("registry data") if t in ("get", "save") else None
                return stand_in

            for t in REGISTRY_TARGETS:
                it.intrinsics["schwifty.registry." + t] = mk(t)
            fr = Frame(None, mod, {})
            try:
                outs = [o for o in it.explore(lambda: it.exec_stmt(st, fr), max_paths=50) if o.kind != "infeasible"]
            except (CannotEvaluate, PathLimit) as e:
                raise AnalysisError(f"{mod.relpath}:{st.lineno}: cannot evaluate import-time code that reaches the registry: {e}")
            if len(outs) != 1:
                raise AnalysisError(f"{mod.relpath}:{st.lineno}: import-time code that reaches the registry is not deterministic")
            if outs[0].kind == "raise":
                raise AnalysisError(f"{mod.relpath}:{st.lineno}: import-time code raises {outs[0].value.name}")
            # explore() replays from scratch per path: with one path the recorder ran once
            out.extend(rec)
    program._import_time_registry_calls = out
    return out


def _module_level_calls(program, target_qual):
    """(module, node, ImportCall) for every import-time call of ``target_qual`` (a registry function)."""
    t = target_qual.split(".")[-1]
    return [(c.module, c.node, c) for c in import_time_registry_calls(program) if c.target == t]


def const_str(program, module, expr):
    """The string an argument expression denotes when it is a literal or a module-level constant bound to one (evaluated, so that
    `registry.get(_COUNTRY_INDEX)` is the same as `registry.get("country")`); None when it is not a compile-time string."""
    if isinstance(expr, ast.Constant):
        return expr.value if isinstance(expr.value, str) else None
    if not isinstance(expr, (ast.Name, ast.Attribute)):
        return None
    from .interp import Interp
    it = Interp(program)
    try:
        outs = [o for o in it.explore(lambda: it.eval(expr, Frame(None, module, {})), max_paths=4) if o.kind != "infeasible"]
    except Exception:  # CannotEvaluate, PathLimit, AnalysisError: not a constant the model can name
        return None
    if len(outs) == 1 and outs[0].kind == "return" and isinstance(outs[0].value, str):
        return str(outs[0].value)
    return None


def index_specs(facts):
    """Indexes built at import: {index_name: dict(base, key, accumulate, predicate, module, node)}"""
    prog = facts.program
    out = {}
    for mod, node, c in _module_level_calls(prog, "schwifty.registry.build_index"):
        bound, pred = c.bound(prog)
        if "base_name" not in bound or "index_name" not in bound or "key" not in bound:
            raise AnalysisError(f"{mod.relpath}:{c.lineno}: build_index call shape not understood")
        key = bound["key"]
        if isinstance(key, list):
            key = tuple(key)
        out[bound["index_name"]] = {
            "base": bound["base_name"], "key": key, "accumulate": bool(bound.get("accumulate", False)),
            "predicate": pred, "module": mod, "node": node,
        }
    return out


def build_index_data(facts, spec):
    reg = facts.ctx.registry
    if spec["base"] != "bank":
        raise AnalysisError(f"index over unknown base registry {spec['base']!r}")
    key = spec["key"]
    out = {}
    for e in reg.banks:
        if any(e.get(k) != v for k, v in spec["predicate"].items()):
            continue
        try:
            k = tuple(e[x] for x in key) if isinstance(key, tuple) else e[key]
        except KeyError:
            raise AnalysisError(f"bank entry without key field {key!r}: {e}")
        if spec["accumulate"]:
            if k and (not isinstance(k, tuple) or all(k)):
                out.setdefault(k, []).append(e)
        else:
            out[k] = e
    return out


def build_iban_table(facts):
    """The country table after the import-time manipulation.  A failure is remembered and raised again on every later request:
    the analysis must never continue on a half-built table."""
    err = getattr(facts, "_iban_error", None)
    if err is not None:
        raise AnalysisError(err)
    try:
        return _build_iban_table(facts)
    except AnalysisError as e:
        facts._iban_error = str(e)
        facts._iban_working = None
        raise


def _build_iban_table(facts):
    prog = facts.program
    reg = facts.ctx.registry
    table = copy.deepcopy(reg.countries)
    facts._iban_working = table
    calls = [(m, n) for m, n, c in _module_level_calls(prog, "schwifty.registry.manipulate")]
    it = facts.interp()
    for mod, call, c in _module_level_calls(prog, "schwifty.registry.manipulate"):
        fr = Frame(None, mod, {})
        it.cur_frame = fr
        it.prefix, it.trace, it.events = [], [], []
        try:
            args = list(c.args)
            if not args or args[0] != "iban":
                continue
            it.call(FuncRef(prog.get("schwifty.registry.manipulate")), args, dict(c.kwargs), call)
        except CannotEvaluate as e:
            raise AnalysisError(f"{mod.relpath}:{call.lineno}: cannot evaluate import-time manipulation of the IBAN table: {e}")
        except Raised as r:
            raise AnalysisError(f"{mod.relpath}:{call.lineno}: import-time manipulation raises {r.exc.name} ({r.exc.args})")
        if it.trace:
            raise AnalysisError(f"{mod.relpath}:{call.lineno}: import-time manipulation is not deterministic on the bundled table")
    table = facts._iban_working
    facts._iban_working = None
    facts.manipulate_calls = calls
    return table


def install(it, facts):
    prog = facts.program
    regmod = prog.modules.get("schwifty.registry")
    if regmod is None:
        raise AnalysisError("anchor vanished: schwifty.registry")

    def persist(name, value):
        """Registry data outlives every path: remember the identity of its containers (see Interp._journal)."""
        done = facts.__dict__.setdefault("_persist_done", set())
        key = (name, id(value))
        if key in done:
            return value
        done.add(key)
        ids = facts.__dict__.setdefault("_persistent_ids", set())
        stack = [value]
        while stack:
            x = stack.pop()
            if isinstance(x, dict):
                if id(x) in ids:
                    continue
                ids.add(id(x))
                stack.extend(x.values())
            elif isinstance(x, list):
                if id(x) in ids:
                    continue
                ids.add(id(x))
                stack.extend(x)
        return value

    def r_get(it_, args, kwargs, node):
        return persist(args[0] if args else kwargs.get("name"), r_get0(it_, args, kwargs, node))

    def r_get0(it_, args, kwargs, node):
        name = args[0] if args else kwargs.get("name")
        if name == "iban":
            if facts._iban_table is not None:
                return facts._iban_table
            if getattr(facts, "_iban_working", None) is not None:
                return facts._iban_working
            return facts.iban_table()
        if name == "bank":
            return facts.ctx.registry.banks
        if isinstance(name, str):
            specs = facts.__dict__.setdefault("_index_specs", None) or index_specs(facts)
            facts._index_specs = specs
            if name in specs:
                cache = facts.__dict__.setdefault("_index_data", {})
                if name not in cache:
                    cache[name] = build_index_data(facts, specs[name])
                return cache[name]
            it_.may_raise("ValueError", node, f"Failed to load registry {name}", certain=True, witness=name)
        raise CannotEvaluate(f"registry.get({name!r})")

    def r_has(it_, args, kwargs, node):
        return True

    def r_save(it_, args, kwargs, node):
        name, data = args[0], args[1]
        if name == "iban":
            facts._iban_working = data
        return data

    for nm, f in (("get", r_get), ("has", r_has), ("save", r_save)):
        if nm in regmod.defs and isinstance(regmod.defs[nm], Func):
            it.intrinsics[f"schwifty.registry.{nm}"] = f
