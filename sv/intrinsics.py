"""Model of the registry module as seen by the rest of the package.

``registry.get(name)`` is answered from the checker's own data model (datamodel.py) — C18's rules
check separately that registry.py composes the files the same way.  Import-time manipulation
(``registry.manipulate("iban", add_bban_regex)``) is evaluated with the abstract evaluator on the
concrete table, so whatever the tree's ``convert_bban_spec_to_regex`` produces is what the rules see.
"""
from __future__ import annotations

import ast
import copy

from .interp import CannotEvaluate, Frame, Raised
from .srcmodel import AnalysisError, Func, Module
from .values import ExcVal, FuncRef, Unknown


def _module_level_calls(program, target_qual):
    """(module, Call node) for every module-level expression statement calling ``target_qual``."""
    out = []
    for mname in sorted(program.modules):
        mod = program.modules[mname]
        for st in mod.toplevel:
            if isinstance(st, ast.Expr) and isinstance(st.value, ast.Call):
                d = program.resolve_expr(mod, st.value.func)
                if isinstance(d, Func) and d.qualname == target_qual:
                    out.append((mod, st.value))
    return out


def index_specs(facts):
    """Indexes built at import: {index_name: dict(base, key, accumulate, predicate, module, node)}"""
    prog = facts.program
    it = facts.interp()
    out = {}
    for mod, call in _module_level_calls(prog, "schwifty.registry.build_index"):
        fr = Frame(None, mod, {})
        it.cur_frame = fr
        try:
            args = [it.eval(a, fr) for a in call.args]
            kw = {k.arg: it.eval(k.value, fr) for k in call.keywords}
        except CannotEvaluate as e:
            raise AnalysisError(f"{mod.relpath}:{call.lineno}: cannot evaluate build_index arguments: {e}")
        f = prog.get("schwifty.registry.build_index")
        params = f.params()
        bound = dict(zip(params, args))
        pred = {}
        for k, v in kw.items():
            if k in params:
                bound[k] = v
            else:
                pred[k] = v
        if "base_name" not in bound or "index_name" not in bound or "key" not in bound:
            raise AnalysisError(f"{mod.relpath}:{call.lineno}: build_index call shape not understood")
        out[bound["index_name"]] = {
            "base": bound["base_name"], "key": bound["key"], "accumulate": bool(bound.get("accumulate", False)),
            "predicate": pred, "module": mod, "node": call,
        }
    return out


def build_index_data(facts, spec):
    reg = facts.ctx.registry
    if spec["base"] != "bank":
        raise AnalysisError(f"index over unknown base registry {spec['base']!r}")
    key = spec["key"]
    out = {}
    for e in reg.banks:
        if any(e.get(k) != v for k, v in spec["predicate"].items()):
            continue
        try:
            k = tuple(e[x] for x in key) if isinstance(key, tuple) else e[key]
        except KeyError:
            raise AnalysisError(f"bank entry without key field {key!r}: {e}")
        if spec["accumulate"]:
            if k and (not isinstance(k, tuple) or all(k)):
                out.setdefault(k, []).append(e)
        else:
            out[k] = e
    return out


def build_iban_table(facts):
    prog = facts.program
    reg = facts.ctx.registry
    table = copy.deepcopy(reg.countries)
    facts._iban_working = table
    calls = [(m, c) for m, c in _module_level_calls(prog, "schwifty.registry.manipulate")]
    it = facts.interp()
    for mod, call in calls:
        fr = Frame(None, mod, {})
        it.cur_frame = fr
        it.prefix, it.trace, it.events = [], [], []
        try:
            args = [it.eval(a, fr) for a in call.args]
            if not args or args[0] != "iban":
                continue
            it.call(FuncRef(prog.get("schwifty.registry.manipulate")), args, {}, call)
        except CannotEvaluate as e:
            raise AnalysisError(f"{mod.relpath}:{call.lineno}: cannot evaluate import-time manipulation of the IBAN table: {e}")
        except Raised as r:
            raise AnalysisError(f"{mod.relpath}:{call.lineno}: import-time manipulation raises {r.exc.name} ({r.exc.args})")
        if it.trace:
            raise AnalysisError(f"{mod.relpath}:{call.lineno}: import-time manipulation is not deterministic on the bundled table")
    table = facts._iban_working
    facts.manipulate_calls = calls
    return table


def install(it, facts):
    prog = facts.program
    regmod = prog.modules.get("schwifty.registry")
    if regmod is None:
        raise AnalysisError("anchor vanished: schwifty.registry")

    def r_get(it_, args, kwargs, node):
        name = args[0] if args else kwargs.get("name")
        if name == "iban":
            if facts._iban_table is not None:
                return facts._iban_table
            if getattr(facts, "_iban_working", None) is not None:
                return facts._iban_working
            return facts.iban_table()
        if name == "bank":
            return facts.ctx.registry.banks
        if isinstance(name, str):
            specs = facts.__dict__.setdefault("_index_specs", None) or index_specs(facts)
            facts._index_specs = specs
            if name in specs:
                cache = facts.__dict__.setdefault("_index_data", {})
                if name not in cache:
                    cache[name] = build_index_data(facts, specs[name])
                return cache[name]
            it_.may_raise("ValueError", node, f"Failed to load registry {name}", certain=True, witness=name)
        raise CannotEvaluate(f"registry.get({name!r})")

    def r_has(it_, args, kwargs, node):
        return True

    def r_save(it_, args, kwargs, node):
        name, data = args[0], args[1]
        if name == "iban":
            facts._iban_working = data
        return data

    for nm, f in (("get", r_get), ("has", r_has), ("save", r_save)):
        if nm in regmod.defs and isinstance(regmod.defs[nm], Func):
            it.intrinsics[f"schwifty.registry.{nm}"] = f
