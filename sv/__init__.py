"""Static verification of schwifty (see /verif/DESIGN.md)."""
