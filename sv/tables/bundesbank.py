"""Reference table of the Bundesbank check-digit methods implemented by the package (appendix A.1).

Asserted columns: modulus, base weights (cycled over the checked digits), start / end / check positions
(1-based, as in the Bundesbank text), direction, summand kind, remainder kind, offset of the weighted
sum, and the result family where the Bundesbank text names it by reference.  ``fam`` None = the
result rule of the method is informational only (not compared).

Typed from the Bundesbank method descriptions, independently of the code.
"""

R29 = [2, 3, 4, 5, 6, 7, 8, 9]
R27 = [2, 3, 4, 5, 6, 7]
R210 = [2, 3, 4, 5, 6, 7, 8, 9, 10]


def _m(mod, fam, weights, start, end, check, rtl=True, summand="plain", remainder="mod", offset=0, **special):
    d = dict(mod=mod, fam=fam, weights=weights, start=start, end=end, check=check, rtl=rtl, summand=summand,
             remainder=remainder, offset=offset)
    d.update(special)
    return d


METHODS = {
    "00": _m(10, "00", [2, 1], 1, 9, 10, summand="dsum"),
    "01": _m(10, "00", [3, 7, 1], 1, 9, 10),
    "02": _m(11, "02", R29, 1, 9, 10),
    "03": _m(10, "00", [2, 1], 1, 9, 10),
    "04": _m(11, "02", R27, 1, 9, 10),
    "05": _m(10, "00", [7, 3, 1], 1, 9, 10),
    "06": _m(11, "06", R27, 1, 9, 10),
    "07": _m(11, "02", R210, 1, 9, 10),
    "08": _m(10, "00", [2, 1], 1, 9, 10, summand="dsum", threshold=60000),
    "10": _m(11, "06", R210, 1, 9, 10),
    "11": _m(11, "11", R210, 1, 9, 10),
    "13": _m(10, "00", [2, 1], 2, 7, 8, summand="dsum"),
    "14": _m(11, "02", R27, 4, 9, 10),
    "15": _m(11, "06", [2, 3, 4, 5], 6, 9, 10),
    "16": _m(11, "06", R27, 1, 9, 10, twin=(9, 10)),
    "17": _m(11, None, [1, 2], 2, 7, 8, rtl=False, summand="dsum", offset=-1),
    "18": _m(10, "00", [3, 9, 7, 1], 1, 9, 10),
    "19": _m(11, "06", R29 + [1], 1, 9, 10),
    "20": _m(11, "06", R29 + [3], 1, 9, 10),
    "21": _m(10, "00", [2, 1], 1, 9, 10, summand="dsum", remainder="iterdsum"),
    "22": _m(10, "00", [3, 1], 1, 9, 10, summand="units"),
    "23": _m(11, "06", R27, 1, 6, 7, twin=(6, 7)),
    "24": _m(10, None, [1, 2, 3], 1, 9, 10, rtl=False, summand="m24"),
    "25": _m(11, None, R29, 2, 9, 10),
    "26": _m(11, "06", R27, 1, 7, 8),
    "28": _m(11, "06", [2, 3, 4, 5, 6, 7, 8], 1, 7, 8),
    "32": _m(11, "06", R27, 4, 9, 10),
    "33": _m(11, "06", [2, 3, 4, 5, 6], 5, 9, 10),
    "34": _m(11, "06", [2, 4, 8, 5, 10, 9, 7], 1, 7, 8),
    "38": _m(11, "06", [2, 4, 8, 5, 10, 9], 4, 9, 10),
    "60": _m(10, "00", [2, 1], 3, 9, 10, summand="dsum"),
    "61": _m(10, "00", [2, 1], 1, 7, 8, summand="dsum"),
    "63": _m(10, "00", [2, 1], 2, 7, 8, summand="dsum"),
    "68": _m(10, "00", [2, 1], 1, 9, 10, summand="dsum"),
    "76": _m(11, None, R27, 2, 7, 8),
    "88": _m(11, "06", R27, 4, 9, 10, alt=dict(start=3, end=9, check=10, weights=[2, 3, 4, 5, 6, 7, 8], when=(3, "9"))),
    "99": _m(11, "06", R27, 1, 9, 10, exempt=(396000000, 499999999)),
}

# method 91: four variants, all modulus 11, result as 06, check digit at position 7
VARIANTS_91 = {
    "Variant1": _m(11, "06", [2, 3, 4, 5, 6, 7], 1, 6, 7),
    "Variant2": _m(11, "06", [7, 6, 5, 4, 3, 2], 1, 6, 7),
    "Variant3": _m(11, "06", [2, 3, 4, 0, 5, 6, 7, 8, 9, 10], 1, 10, 7),
    "Variant4": _m(11, "06", [2, 4, 8, 5, 10, 9], 1, 6, 7),
}

ALWAYS_VALID = {"09"}
ALL_METHODS = sorted(set(METHODS) | ALWAYS_VALID | {"91"})


def dsum(n):
    return sum(int(c) for c in str(n))


SUMMAND = {
    "plain": lambda d, w: d * w,
    "dsum": lambda d, w: dsum(d * w),
    "units": lambda d, w: (d * w) % 10,
    "m24": lambda d, w: (d * w + w) % 11,
}


def remainder_ref(kind, mod, n):
    if kind == "mod":
        return n % mod
    if kind == "iterdsum":
        while n >= 10:
            n = dsum(n)
        return n
    raise KeyError(kind)


INVALID = "invalid"


def family(fam, r):
    """check digit (int) or INVALID for the stored remainder r"""
    if fam == "00":
        return (10 - r) % 10
    if fam == "02":
        return 0 if r == 0 else INVALID if r == 1 else 11 - r
    if fam == "06":
        return 0 if r in (0, 1) else 11 - r
    if fam == "11":
        return 0 if r == 0 else 9 if r == 1 else 11 - r
    raise KeyError(fam)


def effective_weights(weights, n):
    return [weights[i % len(weights)] for i in range(n)]
