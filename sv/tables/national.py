"""Reference implementations of the national check-digit algorithms (appendix A.2), written from the
published rules, independently of the package.  Each takes the dict of a country's BBAN fields (strings of
the field widths of the bundled table) and returns the expected check digits, ``None`` when the published
rule has no valid check digit for the input, or for verdict-only algorithms True / False.
"""

C22 = ["BE", "BA", "ES", "FR", "MC", "IT", "SM", "FI", "NO", "PL", "EE", "PT", "RS", "ME", "MK", "SI", "TL", "MR", "TN",
       "CZ", "SK", "IS"]
COMPUTING = [c for c in C22 if c not in ("CZ", "SK", "IS")]

_ALNUM = "0123456789ABCDEFGHIJKLMNOPQRSTUVWXYZ"


def numerify(s):
    return int("".join(str(_ALNUM.index(c)) for c in s)) if s else 0


def _g(f, k):
    return f.get(k, "")


def be(f):
    n = int(_g(f, "bank_code") + _g(f, "branch_code") + _g(f, "account_code"))
    r = n % 97
    return f"{r or 97:02d}"


def _es_digit(s, weights):
    r = 11 - sum(int(c) * w for c, w in zip(s, weights)) % 11
    return {11: 0, 10: 1}.get(r, r)


def es(f):
    w = [1, 2, 4, 8, 5, 10, 9, 7, 3, 6]
    return f"{_es_digit(_g(f, 'bank_code') + _g(f, 'branch_code'), w[2:])}{_es_digit(_g(f, 'account_code'), w)}"


_FR = {}
for i, ch in enumerate("ABCDEFGHI"):
    _FR[ch] = str(i + 1)
for i, ch in enumerate("JKLMNOPQR"):
    _FR[ch] = str(i + 1)
for i, ch in enumerate("STUVWXYZ"):
    _FR[ch] = str(i + 2)
for ch in "0123456789":
    _FR[ch] = ch


def _frnum(s):
    return int("".join(_FR[c] for c in s))


def fr(f):
    v = 89 * _frnum(_g(f, "bank_code")) + 15 * _frnum(_g(f, "branch_code")) + 3 * _frnum(_g(f, "account_code"))
    return f"{97 - v % 97:02d}"


_IT_ODD = [1, 0, 5, 7, 9, 13, 15, 17, 19, 21, 2, 4, 18, 20, 11, 3, 6, 8, 12, 14, 16, 10, 22, 25, 24, 23]


def it(f):
    s = _g(f, "bank_code") + _g(f, "branch_code") + _g(f, "account_code")
    total = 0
    for i, ch in enumerate(s):
        v = int(ch) if ch.isdigit() else ord(ch) - ord("A")
        total += _IT_ODD[v] if i % 2 == 0 else v
    return chr(ord("A") + total % 26)


def fi(f):
    s = _g(f, "bank_code") + _g(f, "account_code")
    total = 0
    for i, ch in enumerate(reversed(s)):
        d = int(ch) * (2 if i % 2 == 0 else 1)
        total += d // 10 + d % 10
    return str((10 - total % 10) % 10)


def no(f):
    acct = _g(f, "account_code")
    s = acct[2:] if acct[:2] == "00" else _g(f, "bank_code") + acct
    w = [5, 4, 3, 2, 7, 6, 5, 4, 3, 2]
    r = 11 - sum(int(c) * x for c, x in zip(s, w)) % 11
    if r == 10:
        return None
    return str(r % 11)


def pl(f):
    s = _g(f, "bank_code") + _g(f, "branch_code")
    r = sum(int(c) * w for c, w in zip(s, [3, 9, 7, 1, 3, 9, 7])) % 10
    return str((10 - r) % 10)


def ee(f):
    s = _g(f, "branch_code") + _g(f, "account_code")
    w = [7, 3, 1]
    r = sum(int(c) * w[i % 3] for i, c in enumerate(reversed(s))) % 10
    return str((10 - r) % 10)


def mod97_98(f):
    s = _g(f, "bank_code") + _g(f, "branch_code") + _g(f, "account_code")
    return f"{98 - numerify(s) * 100 % 97:02d}"


def mod97_97(f):
    s = _g(f, "bank_code") + _g(f, "branch_code") + _g(f, "account_code")
    return f"{97 - numerify(s) * 100 % 97:02d}"


def cz(f):
    w = [6, 3, 7, 9, 10, 5, 8, 4, 2, 1]
    br, ac = _g(f, "branch_code"), _g(f, "account_code")
    return sum(int(c) * x for c, x in zip(br, w[4:])) % 11 == 0 and sum(int(c) * x for c, x in zip(ac, w)) % 11 == 0


def is_(f):
    k = _g(f, "account_holder_id")
    r = sum(int(c) * w for c, w in zip(k, [3, 2, 7, 6, 5, 4, 3, 2])) % 11
    d = 0 if r == 0 else 11 - r
    return str(d) == k[8]


COMPUTE = {"BE": be, "ES": es, "FR": fr, "MC": fr, "IT": it, "SM": it, "FI": fi, "NO": no, "PL": pl, "EE": ee,
           "PT": mod97_98, "RS": mod97_98, "ME": mod97_98, "MK": mod97_98, "SI": mod97_98, "TL": mod97_98, "BA": mod97_98,
           "MR": mod97_97, "TN": mod97_97}
VERDICT = {"CZ": cz, "SK": cz, "IS": is_}


# Where in the BBAN the fields lie that the 22 national algorithms read and write (0-based half-open ranges).  The published
# algorithms are defined over these positions of the account number, independently of how the bundled table labels them; the table's
# ranges for these fields must agree (R06-fields).  Pinned to the reviewed tree (the sandbox has no access to the national
# publications): a later change of one of these ranges in the data is reported, the ranges themselves are not claimed to be
# re-derived here.  Only the fields an algorithm accepts (and the check-digit field it fills) are compared.
FIELD_POSITIONS = {'BA': {'account_code': (6, 14), 'bank_code': (0, 3), 'branch_code': (3, 6), 'national_checksum_digits': (14, 16)},
 'BE': {'account_code': (3, 10), 'bank_code': (0, 3), 'national_checksum_digits': (10, 12)},
 'CZ': {'account_code': (10, 20), 'bank_code': (0, 4), 'branch_code': (4, 10)},
 'EE': {'account_code': (4, 15), 'bank_code': (0, 2), 'branch_code': (2, 4), 'national_checksum_digits': (15, 16)},
 'ES': {'account_code': (10, 20), 'bank_code': (0, 4), 'branch_code': (4, 8), 'national_checksum_digits': (8, 10)},
 'FI': {'account_code': (3, 13), 'bank_code': (0, 3), 'national_checksum_digits': (13, 14)},
 'FR': {'account_code': (10, 21), 'bank_code': (0, 5), 'branch_code': (5, 10), 'national_checksum_digits': (21, 23)},
 'IS': {'account_code': (6, 12), 'account_holder_id': (12, 22), 'account_type': (4, 6), 'bank_code': (0, 2), 'branch_code': (2, 4)},
 'IT': {'account_code': (11, 23), 'bank_code': (1, 6), 'branch_code': (6, 11), 'national_checksum_digits': (0, 1)},
 'MC': {'account_code': (10, 21), 'bank_code': (0, 5), 'branch_code': (5, 10), 'national_checksum_digits': (21, 23)},
 'ME': {'account_code': (3, 16), 'bank_code': (0, 3), 'national_checksum_digits': (16, 18)},
 'MK': {'account_code': (3, 13), 'bank_code': (0, 3), 'national_checksum_digits': (13, 15)},
 'MR': {'account_code': (10, 21), 'bank_code': (0, 5), 'branch_code': (5, 10), 'national_checksum_digits': (21, 23)},
 'NO': {'account_code': (4, 10), 'bank_code': (0, 4), 'national_checksum_digits': (10, 11)},
 'PL': {'account_code': (8, 24), 'bank_code': (0, 3), 'branch_code': (3, 7), 'national_checksum_digits': (7, 8)},
 'PT': {'account_code': (8, 19), 'bank_code': (0, 4), 'branch_code': (4, 8), 'national_checksum_digits': (19, 21)},
 'RS': {'account_code': (3, 16), 'bank_code': (0, 3), 'national_checksum_digits': (16, 18)},
 'SI': {'account_code': (5, 13), 'bank_code': (0, 2), 'branch_code': (2, 5), 'national_checksum_digits': (13, 15)},
 'SK': {'account_code': (10, 20), 'bank_code': (0, 4), 'branch_code': (4, 10)},
 'SM': {'account_code': (11, 23), 'bank_code': (1, 6), 'branch_code': (6, 11), 'national_checksum_digits': (0, 1)},
 'TL': {'account_code': (3, 17), 'bank_code': (0, 3), 'national_checksum_digits': (17, 19)},
 'TN': {'account_code': (5, 18), 'bank_code': (0, 2), 'branch_code': (2, 5), 'national_checksum_digits': (18, 20)}}
