"""Reference verdicts for the 39 Bundesbank methods the package implements.

Written from the Bundesbank method descriptions for the parameterised part (table in bundesbank.py) and, for the
special rules (08, 16, 23, 24, 25, 26, 61, 63, 68, 76, 88, 91, 99), from the reviewed behaviour of the pinned tree
after the repairs of DESIGN.md 8.3 — these special rules are *pinned*: a later change that alters them is reported,
the pinned behaviour itself is not claimed to be re-derived from the Bundesbank text.

``verdict(method, account)`` -> True / False for a ten-digit account number (a library error counts as False).
"""
from .bundesbank import INVALID, METHODS, SUMMAND, VARIANTS_91, effective_weights, family, remainder_ref


def _cycle(weights, n):
    return [weights[i % len(weights)] for i in range(n)]


def _remainder(digits, ref):
    s = sum(SUMMAND[ref["summand"]](int(d), w) for d, w in zip(digits, _cycle(ref["weights"], len(digits)))) + ref["offset"]
    return remainder_ref(ref["remainder"], ref["mod"], s)


def _select(acct, ref, start=None, end=None):
    start = ref["start"] if start is None else start
    end = ref["end"] if end is None else end
    d = acct[start - 1:end]
    return d[::-1] if ref["rtl"] else d


def _result(ref, r, minuend="mod"):
    """check digit (int) or INVALID for remainder r"""
    if ref["fam"] is not None:
        return family(ref["fam"], r)
    m = ref["mod"] if minuend == "mod" else minuend
    c = r if m is None else m - r
    return 0 if c >= 10 else c


def _template(acct, ref, digits=None, check=None, minuend="mod"):
    digits = _select(acct, ref) if digits is None else digits
    r = _remainder(digits, ref)
    res = _result(ref, r, minuend)
    check = ref["check"] if check is None else check
    return res, r, (res != INVALID and str(res) == acct[check - 1])


def verdict(method, acct):
    assert len(acct) == 10 and acct.isdigit()
    if method == "09":
        return True
    if method == "91":
        for ref in VARIANTS_91.values():
            if _template(acct, ref)[2]:
                return True
        return False
    ref = METHODS[method]
    if method == "08":
        if int(acct) < ref["threshold"]:
            return True
        return _template(acct, ref)[2]
    if method in ("16", "23"):
        res, r, ok = _template(acct, ref)
        a, b = ref["twin"]
        if r == 1 and acct[a - 1] == acct[b - 1]:
            return True
        return ok
    if method == "17":
        return _template(acct, ref, minuend=10)[2]
    if method == "24":
        d = acct[0:9]
        if int(d[0]) in (3, 4, 5, 6):
            d = d[1:]
        elif int(d[0]) == 9:
            d = d[3:]
        d = d.lstrip("0")
        return _template(acct, ref, digits=d, minuend=None)[2]
    if method == "25":
        res, r, ok = _template(acct, ref, minuend=11)
        if r == 1 and acct[1] not in "89":
            return False
        return ok
    if method == "26":
        a = acct[2:] + "00" if acct.startswith("00") else acct
        return _template(a, ref)[2]
    if method == "61":
        d = _select(acct, ref)
        if acct[8] == "8":
            d = acct[:7:-1] + d
        return _template(acct, ref, digits=d)[2]
    if method == "63":
        if acct[0] != "0":
            return False
        return _template(acct, ref)[2]
    if method == "68":
        if 400_000_000 <= int(acct) <= 499_999_999:
            return True

        def digits68(a):
            d = _select(a, ref).rstrip("0")
            if len(d) == 9:
                if d[5] != "9":
                    return None
                d = d[:6]
            return d

        d = digits68(acct)
        if d is None:
            return False
        if _template(acct, ref, digits=d)[2]:
            return True
        a2 = acct[:2] + "00" + acct[4:]
        d2 = digits68(a2)
        if d2 is None:
            return False
        res, r, _ = _template(a2, ref, digits=d2)
        return res != INVALID and str(res) == acct[ref["check"] - 1]
    if method == "76":
        if int(acct[0]) not in (0, 4, 6, 7, 8, 9):
            return False
        d = _select(acct, ref).rstrip("0")
        return _template(acct, ref, digits=d, minuend=None)[2]
    if method == "88":
        alt = ref["alt"]
        if acct[alt["when"][0] - 1] == alt["when"][1]:
            r2 = dict(ref, start=alt["start"], end=alt["end"], check=alt["check"], weights=alt["weights"])
            return _template(acct, r2)[2]
        return _template(acct, ref)[2]
    if method == "99":
        lo, hi = ref["exempt"]
        if lo <= int(acct) <= hi:
            return True
        return _template(acct, ref)[2]
    if method == "21":
        return _template(acct, ref)[2]
    return _template(acct, ref)[2]


def probes(method, seed=0, n_random=60, pairs=False):
    """Account numbers covering every position x digit (each made reference-valid where possible), boundaries of the
    special rules, and seeded random fills: list of (account, reference verdict)."""
    import random
    rnd = random.Random(7001 * (seed + 1) + int(method))
    out = {}

    def add(a):
        if len(a) == 10 and a.isdigit() and a not in out:
            out[a] = verdict(method, a)

    def valid_variant(a):
        ref = METHODS.get(method)
        pos = (ref["check"] if ref else 10) - 1
        if method == "91":
            pos = 6
        for c in "0123456789":
            b = a[:pos] + c + a[pos + 1:]
            if verdict(method, b):
                return b
        return None

    for x in (59999, 60000, 60001, 399999999, 400000000, 499999999, 500000000, 395999999, 396000000, 499999998):
        a = f"{x:010d}"
        add(a)
        v = valid_variant(a)
        if v:
            add(v)
    n_boundary = len(out)
    bases = ["0012345678", "1000000000", "0000000000", "9876543210", "0400000007", "5012345600", "0090013000", "0099913003"]
    for b in bases:
        add(b)
        v = valid_variant(b)
        if v:
            add(v)
    base = "0012345678"
    for i in range(10):
        for d in "0123456789":
            a = base[:i] + d + base[i + 1:]
            add(a)
            v = valid_variant(a)
            if v:
                add(v)
    # two leading positions jointly (account types, leading-zero rules)
    for d0 in "0123456789":
        for d1 in "059":
            a = d0 + d1 + "23456789"
            v = valid_variant(a)
            add(v or a)
    for _ in range(n_random):
        a = "".join(rnd.choice("0123456789") for _ in range(10))
        if rnd.random() < 0.5:
            a = "0" * rnd.randint(1, 4) + a[:10]
            a = a[:10]
        add(a)
        v = valid_variant(a)
        if v:
            add(v)
    if pairs:
        # every pair of positions varied jointly over all digit values (thorough tier), each also made reference-valid where possible
        for i in range(10):
            for j in range(i + 1, 10):
                for d1 in "0123456789":
                    for d2 in "0123456789":
                        a = base[:i] + d1 + base[i + 1:j] + d2 + base[j + 1:]
                        add(a)
                        v = valid_variant(a)
                        if v:
                            add(v)
    items = list(out.items())
    return items[:n_boundary], items[n_boundary:]
