"""E7 — findings, known-findings matching, evidence, replay files, exit codes."""
from __future__ import annotations

import json
import os
import time

from .srcmodel import AnalysisError

VERIF = os.path.dirname(os.path.dirname(os.path.abspath(__file__)))


class Finding:
    def __init__(self, prop, rule, construct, message, where=None, witness=None, facts=None):
        self.prop = prop
        self.rule = rule
        self.construct = construct
        self.message = message
        self.where = where
        self.witness = witness
        self.facts = facts or {}

    @property
    def key(self):
        return (self.prop, self.rule, self.construct)

    def slug(self):
        s = f"{self.prop}-{self.rule}-{self.construct}"
        return "".join(c if c.isalnum() or c in "-_." else "_" for c in s)[:150]


class RuleRun:
    def __init__(self, report, name, floor=0, what=""):
        self.report = report
        self.name = name
        self.floor = floor
        self.what = what
        self.instances = 0
        self.nontrivial = 0
        self.samples = []
        self.findings = 0

    def instance(self, desc=None, nontrivial=True, n=1):
        self.instances += n
        if nontrivial:
            self.nontrivial += n
        if desc is not None and len(self.samples) < 6:
            self.samples.append(desc)

    def finding(self, construct, message, where=None, witness=None, facts=None):
        self.findings += 1
        self.report.add(Finding(self.report.prop, self.name, construct, message, where, witness, facts))


class Report:
    def __init__(self, prop, tier, seed, root):
        self.prop = prop
        self.tier = tier
        self.seed = seed
        self.root = root
        self.rules = []
        self.findings = []
        self.not_decided = []
        self.assumptions = []
        self.trusted = []
        self.analysed = {}
        self.notes = []
        self.t0 = time.time()
        self.explanation = ""
        self.controls = []

    def rule(self, name, floor=0, what=""):
        r = RuleRun(self, name, floor, what)
        self.rules.append(r)
        return r

    def add(self, f):
        if f.key not in [x.key for x in self.findings]:
            self.findings.append(f)

    def check_floors(self):
        if self.findings:
            # a report that already names violations is not passing vacuously; floors are only noted
            for r in self.rules:
                if r.instances < r.floor and r.findings == 0:
                    print(f"note: rule {r.name} decided {r.instances} instance(s), floor {r.floor}")
            return
        for r in self.rules:
            # a rule that already reports a finding is not passing vacuously
            if r.instances < r.floor and r.findings == 0:
                raise AnalysisError(
                    f"rule {r.name}: decided {r.instances} instance(s), floor is {r.floor} — the rule no longer finds its anchors"
                )

    # ---- known findings ----------------------------------------------------
    def load_known(self):
        path = os.path.join(VERIF, "known_findings.json")
        if not os.path.exists(path):
            return []
        with open(path, encoding="utf-8") as fp:
            data = json.load(fp)
        return [e for e in data.get("findings", []) if e.get("property") == self.prop]

    def finish(self, write=True):
        """Print the report, write evidence and replays; return the exit code."""
        self.check_floors()
        known = [e for e in self.load_known() if e.get("status") == "known"]
        known_keys = {(e["property"], e["rule"], e["construct"]): e for e in known}
        violations = []
        for f in self.findings:
            loc = f.where or "?"
            print(f"{loc} {f.rule} {f.construct} — {f.message}" + (f" — witness: {f.witness}" if f.witness is not None else ""))
            e = known_keys.get(f.key)
            if e is not None:
                print(f"KNOWN-FINDING: property={self.prop} {e.get('what', f.message)}")
                continue
            path = None
            if write:
                os.makedirs(os.path.join(VERIF, "replays"), exist_ok=True)
                path = os.path.join(VERIF, "replays", f.slug() + ".json")
                with open(path, "w", encoding="utf-8") as fp:
                    json.dump({"property": f.prop, "rule": f.rule, "construct": f.construct, "message": f.message,
                               "where": f.where, "witness": _js(f.witness), "facts": _js(f.facts), "root": self.root,
                               "tier": self.tier}, fp, indent=1, default=str)
            violations.append((f, path))
            print(f"VIOLATION property={self.prop} replay={path}")
        if write:
            self.write_evidence(len(violations))
        for r in self.rules:
            print(f"  rule {r.name}: {r.instances} instance(s) decided (floor {r.floor}), {r.findings} finding(s)")
        if violations:
            print(f"{self.prop}: {len(violations)} violation(s)")
            return 1
        print(f"{self.prop}: holds on everything analysed ({sum(r.instances for r in self.rules)} rule instances, "
              f"{time.time() - self.t0:.1f}s)")
        return 0

    def write_evidence(self, n_viol):
        os.makedirs(os.path.join(VERIF, "evidence"), exist_ok=True)
        total = sum(r.instances for r in self.rules)
        nontriv = sum(r.nontrivial for r in self.rules)
        samples = []
        for r in self.rules:
            for s in r.samples[:3]:
                samples.append({"rule": r.name, "instance": _js(s)})
        ev = {
            "property_id": self.prop,
            "tier": self.tier,
            "seed": self.seed,
            "level": "other",
            "coverage": {
                "explanation": self.explanation,
                "evaluations": max(total, 1),
                "distinct_nontrivial": nontriv,
                "rule": "one evaluation = one rule instance decided from the source / data of the tree (a guard, a class, "
                        "a country, a bank entry, a call site); non-trivial = the instance carried a real obligation",
                "samples": samples or [{"note": "no instances"}],
                "obligations": total,
                "discharged": total - len(self.findings),
                "rules": {r.name: {"what": r.what, "instances": r.instances, "floor": r.floor, "findings": r.findings}
                          for r in self.rules},
                "analysed": self.analysed,
                "not_decided": self.not_decided,
                "positive_controls": self.controls,
                "findings": [{"rule": f.rule, "construct": f.construct, "message": f.message, "where": f.where,
                              "witness": _js(f.witness)} for f in self.findings],
                "trusted_base": self.trusted,
                "checker_cmd": f"./check {self.prop} --tier {self.tier}",
            },
            "assumptions": self.assumptions,
            "wall_s": round(time.time() - self.t0, 3),
            "violations": n_viol,
        }
        path = os.path.join(VERIF, "evidence", f"{self.prop}.json")
        with open(path, "w", encoding="utf-8") as fp:
            json.dump(ev, fp, indent=1, default=str)


def _js(v):
    if isinstance(v, (str, int, float, bool)) or v is None:
        return v
    if isinstance(v, (list, tuple, set, frozenset)):
        return [_js(x) for x in v]
    if isinstance(v, dict):
        return {str(k): _js(x) for k, x in v.items()}
    return repr(v)
