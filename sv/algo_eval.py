"""Abstract evaluation of a registered national algorithm on the fields of one country."""
from __future__ import annotations

from .interp import CannotEvaluate, PathLimit
from .srcmodel import AnalysisError
from .values import ALNUM_UPPER, AStr, CharSet, DIGITS, TOP_CLEAN, UPPER

CLASS_CHARS = {"n": DIGITS, "a": UPPER, "c": ALNUM_UPPER, "e": CharSet(" ")}


def struct_positions(registry, cc):
    st = registry.structure(cc)
    if st is None or any(isinstance(x, tuple) for x in st):
        return None
    return st


def component_value(registry, cc, comp, universe="validated"):
    st = struct_positions(registry, cc)
    rng = registry.positions(cc).get(comp)
    if st is None or not rng:
        return ""
    a, b = rng
    if not (0 <= a < len(st) and b <= len(st)):
        return ""  # _get_slice semantics
    if universe == "validated":
        return AStr.make([CLASS_CHARS[c] for c in st[a:b]])
    return AStr.make([TOP_CLEAN] * (b - a))


def is_library_exc(program, exc):
    root = program.find("schwifty.exceptions.SchwiftyException")
    if root is None:
        raise AnalysisError("anchor vanished: schwifty.exceptions.SchwiftyException")
    return not isinstance(exc.cls, str) and root in exc.cls.mro(program)


def accepts_of(it, obj):
    acc = it.getattr(obj, "accepts")
    if not isinstance(acc, list) or not all(isinstance(x, str) for x in acc):
        raise AnalysisError(f"{obj.cls.short}.accepts is not a list of components")
    return [str(x) for x in acc]


def explore_method(facts, reg, method, args_builder, max_paths=30000, split=False):
    """Explore ``instance.<method>(*args)`` for a fresh instance of the registered class.
    split=False: no eager case split of ``x % m`` (fewer paths; enough for exception / width questions)."""
    it = facts.interp(max_paths=max_paths)
    if not split:
        it.no_split = 1

    def thunk():
        obj = it.instantiate(reg.cls, [], {}, None)
        return it.call(it.getattr(obj, method), args_builder(it, obj), {})

    try:
        return it, it.explore(thunk)
    except CannotEvaluate as e:
        raise AnalysisError(f"cannot evaluate {reg.cls.short}.{method}: {e}")
    except PathLimit as e:
        raise AnalysisError(f"{reg.cls.short}.{method}: {e}")


class Evaluator:
    """Concrete evaluation of methods of registered classes through the abstract evaluator."""

    def __init__(self, facts):
        self.facts = facts
        self.it = facts.interp()

    def call(self, cls, method, args):
        it = self.it

        def thunk():
            obj = it.instantiate(cls, [], {}, None)
            return it.call(it.getattr(obj, method), list(args), {})

        try:
            outs = it.explore(thunk, max_paths=64)
        except (CannotEvaluate, PathLimit) as e:
            raise AnalysisError(f"cannot evaluate {cls.short}.{method}{tuple(args)!r}: {e}")
        outs = [o for o in outs if o.kind != "infeasible"]
        if len(outs) != 1:
            raise AnalysisError(f"{cls.short}.{method} is not deterministic on concrete input {args!r}")
        o = outs[0]
        return ("ret", o.value) if o.kind == "return" else ("exc", o.value)


def country_fields(registry, cc):
    """{component: (start, end, class letters)} for the published positions of cc."""
    st = struct_positions(registry, cc)
    out = {}
    if st is None:
        return out
    for comp, rng in registry.positions(cc).items():
        if isinstance(rng, list) and len(rng) == 2 and 0 <= rng[0] < rng[1] <= len(st):
            out[comp] = (rng[0], rng[1], st[rng[0]:rng[1]])
    return out


CLASS_ALPHABET = {"n": "0123456789", "a": "ABCDEFGHIJKLMNOPQRSTUVWXYZ", "c": "0123456789ABCDEFGHIJKLMNOPQRSTUVWXYZ", "e": " "}


PAIR_VALUES_C = "0159ABIJRSZ"   # values used for alphanumeric positions in the pairwise family (numeric positions use all ten digits)


def probes(fields, accepts, seed=0, n_random=24, pairs=False):
    """Deterministic probe family over the accepted fields: base, every single-position variation,
    and pseudo-random fills.  Yields dicts component -> string (all published fields filled).
    pairs=True (thorough tier) adds every *pair* of accepted positions varied jointly from the base vector: all 10 x 10 digit
    values for numeric positions, all letters for alphabetic ones, the values of PAIR_VALUES_C for alphanumeric ones - a special
    case keyed on any two positions at once is inside the family."""
    import random
    base = {c: "".join(CLASS_ALPHABET[k][0] for k in cls) for c, (a, b, cls) in fields.items()}
    yield dict(base)
    for c in accepts:
        if c not in fields:
            continue
        a, b, cls = fields[c]
        for i, k in enumerate(cls):
            for ch in CLASS_ALPHABET[k][1:]:
                p = dict(base)
                p[c] = base[c][:i] + ch + base[c][i + 1:]
                yield p
    rnd = random.Random(1000003 * (seed + 1))
    for _ in range(n_random):
        yield {c: "".join(rnd.choice(CLASS_ALPHABET[k]) for k in cls) for c, (a, b, cls) in fields.items()}
    if pairs:
        slots = [(c, i, k) for c in accepts if c in fields for i, k in enumerate(fields[c][2])]

        def values(k):
            return PAIR_VALUES_C if k == "c" else CLASS_ALPHABET[k]

        for x in range(len(slots)):
            for y in range(x + 1, len(slots)):
                (c1, i1, k1), (c2, i2, k2) = slots[x], slots[y]
                for v1 in values(k1):
                    if v1 == base[c1][i1]:
                        continue
                    for v2 in values(k2):
                        if v2 == base[c2][i2]:
                            continue
                        p = dict(base)
                        p[c1] = p[c1][:i1] + v1 + p[c1][i1 + 1:]
                        p[c2] = p[c2][:i2] + v2 + p[c2][i2 + 1:]
                        yield p


def all_values_agreement(ev, cls, acc, computed):
    """For a few probes (those with the smallest / largest computed digits): validate must accept exactly the computed value
    among ALL values of the same width and alphabet.  ``computed``: list of (probe dict, args list, digits str).
    Returns (n evaluations, mismatch or None)."""
    import itertools
    todo = []
    cs = sorted(computed, key=lambda x: x[2])
    for x in (cs[:2] + cs[-2:] + cs[len(cs) // 2: len(cs) // 2 + 1]):
        if x not in todo:
            todo.append(x)
    n = 0
    for p, args, digits in todo:
        if not isinstance(digits, str) or not digits or len(digits) > 2:
            continue
        alphabet = "0123456789" if digits.isdigit() else "ABCDEFGHIJKLMNOPQRSTUVWXYZ"
        for combo in itertools.product(alphabet, repeat=len(digits)):
            cand = "".join(combo)
            v = ev.call(cls, "validate", [args, cand])
            n += 1
            want = cand == digits
            if v != ("ret", want):
                got = f"raises {v[1].name}" if v[0] == "exc" else repr(v[1])
                return n, (p, f"validate(fields, {cand!r}) gives {got} although compute(fields) = {digits!r}")
    return n, None
