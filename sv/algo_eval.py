"""Abstract evaluation of a registered national algorithm on the fields of one country."""
from __future__ import annotations

from .interp import CannotEvaluate, PathLimit
from .srcmodel import AnalysisError
from .values import ALNUM_UPPER, AStr, CharSet, DIGITS, TOP_CLEAN, UPPER

CLASS_CHARS = {"n": DIGITS, "a": UPPER, "c": ALNUM_UPPER, "e": CharSet(" ")}


def struct_positions(registry, cc):
    st = registry.structure(cc)
    if st is None or any(isinstance(x, tuple) for x in st):
        return None
    return st


def component_value(registry, cc, comp, universe="validated"):
    st = struct_positions(registry, cc)
    rng = registry.positions(cc).get(comp)
    if st is None or not rng:
        return ""
    a, b = rng
    if not (0 <= a < len(st) and b <= len(st)):
        return ""  # _get_slice semantics
    if universe == "validated":
        return AStr.make([CLASS_CHARS[c] for c in st[a:b]])
    return AStr.make([TOP_CLEAN] * (b - a))


def is_library_exc(program, exc):
    root = program.find("schwifty.exceptions.SchwiftyException")
    if root is None:
        raise AnalysisError("anchor vanished: schwifty.exceptions.SchwiftyException")
    return not isinstance(exc.cls, str) and root in exc.cls.mro(program)


def accepts_of(it, obj):
    acc = it.getattr(obj, "accepts")
    if not isinstance(acc, list) or not all(isinstance(x, str) for x in acc):
        raise AnalysisError(f"{obj.cls.short}.accepts is not a list of components")
    return [str(x) for x in acc]


def explore_method(facts, reg, method, args_builder, max_paths=30000):
    """Explore ``instance.<method>(*args)`` for a fresh instance of the registered class."""
    it = facts.interp(max_paths=max_paths)

    def thunk():
        obj = it.instantiate(reg.cls, [], {}, None)
        return it.call(it.getattr(obj, method), args_builder(it, obj), {})

    try:
        return it, it.explore(thunk)
    except CannotEvaluate as e:
        raise AnalysisError(f"cannot evaluate {reg.cls.short}.{method}: {e}")
    except PathLimit as e:
        raise AnalysisError(f"{reg.cls.short}.{method}: {e}")
