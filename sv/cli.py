"""Command line: python -m sv.cli <ID> [--tier quick|thorough] [--root /repo] [--replay FILE]"""
from __future__ import annotations

import argparse
import importlib
import json
import os
import sys
import traceback

from .report import Report
from .srcmodel import AnalysisError


class Ctx:
    def __init__(self, root, tier, seed):
        self.root = root
        self.tier = tier
        self.seed = seed
        self._program = None
        self._registry = None
        self._facts = None

    @property
    def program(self):
        if self._program is None:
            from .srcmodel import Program
            self._program = Program(self.root)
        return self._program

    @property
    def registry(self):
        if self._registry is None:
            from .datamodel import Registry
            self._registry = Registry(self.root)
        return self._registry

    @property
    def facts(self):
        if self._facts is None:
            from .facts import Facts
            self._facts = Facts(self)
        return self._facts


def main(argv=None):
    ap = argparse.ArgumentParser()
    ap.add_argument("prop")
    ap.add_argument("--tier", default=os.environ.get("VERIF_TIER") or "quick", choices=["quick", "thorough"])
    ap.add_argument("--root", default=os.environ.get("VERIF_ROOT") or "/repo")
    ap.add_argument("--replay", default=None)
    ap.add_argument("--no-write", action="store_true", help="do not write evidence / replay files")
    args = ap.parse_args(argv)
    try:
        seed = int(os.environ.get("VERIF_SEED") or 0)
    except ValueError:
        seed = 0
    prop = args.prop.upper()
    if args.replay:
        with open(args.replay, encoding="utf-8") as fp:
            rep = json.load(fp)
        print(f"replaying {rep['property']} {rep['rule']} {rep['construct']}: re-running the check on {args.root}")
        prop = rep["property"]
    try:
        mod = importlib.import_module(f"sv.rules.{prop.lower()}")
    except ImportError as e:
        print(f"ANALYSIS-ERROR property={prop} no check module: {e}")
        return 2
    ctx = Ctx(args.root, args.tier, seed)
    report = Report(prop, args.tier, seed, args.root)
    try:
        mod.run(ctx, report)
        code = report.finish(write=not args.no_write)
        if args.replay:
            hit = any(f.rule == rep["rule"] and f.construct == rep["construct"] for f in report.findings)
            print("replay: finding " + ("reproduced" if hit else "NOT reproduced on this tree"))
        return code
    except AnalysisError as e:
        if report.findings:
            # part of the analysis could not be completed, but violations were already established: report those
            print(f"note: analysis incomplete ({e})")
            try:
                return report.finish(write=not args.no_write)
            except AnalysisError:
                pass
        print(f"ANALYSIS-ERROR property={prop} {e}")
        return 2
    except Exception as e:  # never let a traceback look like a violation
        tb = traceback.format_exc()
        print(f"ANALYSIS-ERROR property={prop} internal error: {type(e).__name__}: {e}")
        sys.stderr.write(tb)
        return 2


if __name__ == "__main__":
    sys.exit(main())
