"""Command line: python -m sv.cli <ID> [--tier quick|thorough] [--root /repo] [--replay FILE]"""
from __future__ import annotations

import argparse
import importlib
import json
import os
import sys
import traceback

from .report import Report
from .srcmodel import AnalysisError


class Ctx:
    def __init__(self, root, tier, seed, overrides=None):
        self.root = root
        self.tier = tier
        self.seed = seed
        self.overrides = overrides
        self._program = None
        self._registry = None
        self._facts = None

    @property
    def program(self):
        if self._program is None:
            from .srcmodel import Program
            self._program = Program(self.root, overrides=self.overrides)
        return self._program

    @property
    def registry(self):
        if self._registry is None:
            from .datamodel import Registry
            self._registry = Registry(self.root)
        return self._registry

    @property
    def facts(self):
        if self._facts is None:
            from .facts import Facts
            self._facts = Facts(self)
        return self._facts


def run_controls(mod, ctx, report, args):
    """Positive controls: in-memory one-edit variants of the current tree on which a named rule must fire.

    Run on every invocation for checks whose analysis is fast (module attribute CONTROLS_ALWAYS) and in the thorough tier
    for the others.  A control whose edit no longer applies to the tree is recorded as inapplicable; a control that applies
    but leaves the rule silent makes the run an ANALYSIS-ERROR (the rule has lost its teeth) — never a VIOLATION."""
    from . import controls as _controls
    controls = _controls.CONTROLS.get(report.prop)
    if not controls or args.no_controls:
        return
    if not (report.prop in _controls.ALWAYS or ctx.tier == "thorough"):
        report.controls = [{"note": "positive controls of this check run in the thorough tier (and in selftest/run.py)"}]
        return
    import os
    done = []
    for c in controls:
        overrides = {}
        applicable = True
        for ed in c["edits"]:
            path = os.path.join(ctx.root, ed["file"])
            try:
                text = overrides.get(ed["file"]) or open(path, encoding="utf-8").read()
            except OSError:
                applicable = False
                break
            if ed["old"] not in text:
                applicable = False
                break
            overrides[ed["file"]] = text.replace(ed["old"], ed["new"], 1)
        if not applicable:
            done.append({"control": c["name"], "applicable": False})
            continue
        ctx2 = Ctx(ctx.root, "quick", ctx.seed, overrides=overrides)
        rep2 = Report(report.prop, "quick", ctx.seed, ctx.root)
        try:
            mod.run(ctx2, rep2)
        except AnalysisError as e:
            if not rep2.findings:
                raise AnalysisError(f"positive control {c['name']!r}: analysis of the variant failed: {e}")
        fired = [f for f in rep2.findings if c["rule"] in f.rule]
        done.append({"control": c["name"], "applicable": True, "fired": bool(fired), "finding": fired[0].construct if fired else None})
        if not fired:
            raise AnalysisError(f"positive control {c['name']!r} is silent: rule {c['rule']} no longer fires on a variant that breaks the property")
    report.controls = done


class TimeBudgetExceeded(BaseException):
    """Raised by the alarm handler; not an Exception, so no handler inside the analysis can swallow it."""


def main(argv=None):
    ap = argparse.ArgumentParser()
    ap.add_argument("prop")
    ap.add_argument("--tier", default=os.environ.get("VERIF_TIER") or "quick", choices=["quick", "thorough"])
    ap.add_argument("--root", default=os.environ.get("VERIF_ROOT") or "/repo")
    ap.add_argument("--replay", default=None)
    ap.add_argument("--no-write", action="store_true", help="do not write evidence / replay files")
    ap.add_argument("--no-controls", action="store_true", help="skip the positive controls")
    args = ap.parse_args(argv)
    try:
        seed = int(os.environ.get("VERIF_SEED") or 0)
    except ValueError:
        seed = 0
    prop = args.prop.upper()
    if args.replay:
        with open(args.replay, encoding="utf-8") as fp:
            rep = json.load(fp)
        print(f"replaying {rep['property']} {rep['rule']} {rep['construct']}: re-running the check on {args.root}")
        prop = rep["property"]
    try:
        mod = importlib.import_module(f"sv.rules.{prop.lower()}")
    except ImportError as e:
        print(f"ANALYSIS-ERROR property={prop} no check module: {e}")
        return 2
    ctx = Ctx(args.root, args.tier, seed)
    report = Report(prop, args.tier, seed, args.root)
    # wall-clock budget: a tree on which the analysis does not terminate in reasonable time is "cannot decide" (exit 2), never a hang
    budget = int(os.environ.get("SV_TIME_LIMIT") or (3600 if args.tier == "thorough" else 900))
    try:
        import signal

        def _expired(signum, frame):
            raise TimeBudgetExceeded(f"no verdict within the time budget of {budget} s (set SV_TIME_LIMIT to change it)")

        signal.signal(signal.SIGALRM, _expired)
        signal.alarm(budget)
    except (ImportError, ValueError, AttributeError):
        pass
    try:
        mod.run(ctx, report)
        run_controls(mod, ctx, report, args)
        code = report.finish(write=not args.no_write)
        if args.replay:
            hit = any(f.rule == rep["rule"] and f.construct == rep["construct"] for f in report.findings)
            print("replay: finding " + ("reproduced" if hit else "NOT reproduced on this tree"))
        return code
    except TimeBudgetExceeded as e:
        if report.findings:
            print(f"note: analysis incomplete ({e})")
            try:
                return report.finish(write=not args.no_write)
            except AnalysisError:
                pass
        print(f"ANALYSIS-ERROR property={prop} {e}")
        return 2
    except AnalysisError as e:
        if report.findings:
            # part of the analysis could not be completed, but violations were already established: report those
            print(f"note: analysis incomplete ({e})")
            try:
                return report.finish(write=not args.no_write)
            except AnalysisError:
                pass
        print(f"ANALYSIS-ERROR property={prop} {e}")
        return 2
    except Exception as e:  # never let a traceback look like a violation
        tb = traceback.format_exc()
        if report.findings:
            # violations established before the analysis gave up stand on their own
            print(f"note: analysis incomplete ({type(e).__name__}: {e})")
            try:
                return report.finish(write=not args.no_write)
            except Exception:  # noqa: BLE001
                pass
        print(f"ANALYSIS-ERROR property={prop} internal error: {type(e).__name__}: {e}")
        sys.stderr.write(tb)
        return 2


def _main():
    try:
        return main()
    finally:
        try:
            import signal
            signal.alarm(0)
        except Exception:  # noqa: BLE001
            pass
        from . import par
        par.shutdown()


if __name__ == "__main__":
    sys.exit(_main())
