"""Library model: builtins, str / list / dict methods, re, itertools, operator — appendix D of DESIGN.md.

Every entry states what the callable returns on abstract values and which builtin exception it may
raise.  A callable that is not modelled makes the enclosing evaluation give up (CannotEvaluate).
"""
from __future__ import annotations

import re as _re

from .srcmodel import AnalysisError
from .values import (
    ASCII_DIGITS, AStr, ABag, Bound, CharSet, ClsRef, CycleVal, ExcVal, ExtRef, FuncRef, Interval,
    ModRef, ND, OT, Obj, RegexVal, SStr, Sym, Unknown, VSet, elements, is_abstract, join_values,
)


def _CE(msg):
    from .interp import CannotEvaluate
    return CannotEvaluate(msg)


_PURE_STR = {"casefold", "title", "capitalize", "swapcase", "center", "ljust", "rjust", "partition", "rpartition", "rfind", "rindex",
             "removeprefix", "removesuffix", "expandtabs", "splitlines", "rsplit", "isidentifier", "isprintable", "istitle"}


def call_ext(it, ref, args, kwargs, node):
    from . import ops
    name = ref.name
    recv = ref.recv
    if name.startswith("builtins."):
        f = _BUILTINS.get(name[9:])
        if f is None and name not in _EXT and name.startswith("builtins.str.") and args and recv is None:
            # unbound method of str applied to an explicit receiver: str.__hash__(x), str.__eq__(x, y), str.upper(x)
            meth = name[len("builtins.str."):]
            rv = ops.strval(args[0])
            if meth == "__hash__" and len(args) == 1:
                return Sym("hash", ops.freeze(rv))
            cmpops = {"__eq__": "Eq", "__ne__": "NotEq", "__lt__": "Lt", "__le__": "LtE", "__gt__": "Gt", "__ge__": "GtE"}
            if meth in cmpops and len(args) == 2 and not isinstance(args[1], Obj):
                return ops.compare(it, cmpops[meth], rv, args[1], node)
            if meth == "__str__" and len(args) == 1:
                return rv
            if meth == "__len__" and len(args) == 1:
                return _b_len(it, [rv], {}, node)
            if meth in _STR and not meth.startswith("__"):
                return _STR[meth](it, rv, list(args[1:]), kwargs, node)
        if f is None and name in _EXT:
            return _EXT[name](it, args, kwargs, node)
        if f is None:
            if name[9:] in ops.BUILTIN_EXC_NAMES:
                return ExcVal(name[9:], tuple(args), node, it._where(node))
            raise _CE(f"builtin {name[9:]} is not modelled")
        return f(it, args, kwargs, node)
    head, _, meth = name.partition(".")
    if recv is not None:
        table = {"str": _STR, "list": _LIST, "dict": _DICT, "set": _SET, "Pattern": _PATTERN, "Match": _MATCH,
                 "sym": _SYMM, "unknown": _UNK, "Path": _PATHM, "Random": _RANDOM, "Rstr": _RSTR}.get(head)
        if head == "str" and (table is None or meth not in table):
            from . import ops
            rv = ops.strval(recv)
            if isinstance(rv, str) and meth in _PURE_STR and all(isinstance(a, (str, int, type(None))) for a in args) and not kwargs:
                try:
                    return getattr(str, meth)(str(rv), *args)
                except (ValueError, TypeError, IndexError) as e:
                    it.may_raise(type(e).__name__, node, str(e), certain=True)
        if table is None or meth not in table:
            raise _CE(f"method {name} is not modelled")
        return table[meth](it, recv, args, kwargs, node)
    hooks = getattr(it, "ext_hooks", None)
    if hooks and name in hooks:
        return hooks[name](it, args, kwargs, node)
    f = _EXT.get(name)
    if f is None:
        raise _CE(f"external callable {name} is not modelled")
    return f(it, args, kwargs, node)


# ------------------------------------------------------------------------------------------------ builtins

def _b_len(it, args, kwargs, node):
    from . import ops
    (v,) = args
    v = ops.tupval(it, ops.strval(v))
    if isinstance(v, (str, list, tuple, dict, frozenset, set, AStr)):
        return len(v)
    if isinstance(v, CharSet):
        return 1
    if isinstance(v, ABag):
        return v.lo if v.lo == v.hi else Interval(v.lo, v.hi)
    if isinstance(v, VSet):
        return join_values([len(x) for x in v.vals])
    if isinstance(v, (SStr, Sym)):
        return Sym("len", v)
    if isinstance(v, Unknown):
        return Unknown("len")
    raise _CE(f"len of {v!r}")


def _int_of_char(it, c, node, collect):
    """c: 1-char str or CharSet singleton atom -> list of ints or None (invalid)"""
    if isinstance(c, CharSet):
        (a,) = c.chars
        return list(range(10)) if a == ND else None
    if c in ASCII_DIGITS:
        return [int(c)]
    return None


def _int_base(it, v, base, node):
    """int(text, base) on abstract text: ASCII characters by Python's own rule, ND = any non-ASCII decimal digit."""
    def one_char(c):
        if isinstance(c, CharSet):
            (a,) = c.chars
            if a == ND:
                return list(range(min(10, base))) if base >= 2 else None
            return None
        try:
            return [int(c, base)]
        except ValueError:
            return None

    if isinstance(v, VSet):
        good, bad = [], []
        for x in v.vals:
            try:
                good.append(int(x, base))
            except (ValueError, TypeError):
                bad.append(x)
        if bad:
            it.may_raise("ValueError", node, f"int({bad[0]!r}, {base})", certain=not good, witness=bad[0])
        return join_values(good)
    if isinstance(v, CharSet):
        good, bad = [], []
        for e in elements(v):
            r = one_char(e)
            if r is None:
                bad.append(e if isinstance(e, str) else next(iter(e.chars)))
            else:
                good.extend(r)
        if bad:
            it.may_raise("ValueError", node, f"int() with base {base} of the character {sorted(bad)[0]!r}", certain=not good, witness=sorted(bad)[0])
        return join_values(good)
    # AStr
    n = len(v)
    if n == 0:
        it.may_raise("ValueError", node, "int() of empty string", certain=True, witness="")
    bad = None
    allbad = False
    for i, p in enumerate(v.pos):
        els = elements(p) if isinstance(p, CharSet) else [p]
        ok = [e for e in els if one_char(e) is not None]
        if len(ok) < len(els) and bad is None:
            e = next(e for e in els if one_char(e) is None)
            bad = (i, e if isinstance(e, str) else next(iter(e.chars)))
        if not ok:
            allbad = True
    if bad is not None:
        it.may_raise("ValueError", node, f"int() with base {base} of a string with {bad[1]!r} at index {bad[0]}", certain=allbad, witness=bad)
    return Interval(0, base ** n - 1)


def _b_int(it, args, kwargs, node):
    from . import ops
    if not args:
        return 0
    if len(args) == 2:
        v, base = args
        if isinstance(v, str) and isinstance(base, int):
            try:
                return int(v, base)
            except ValueError as e:
                it.may_raise("ValueError", node, str(e), certain=True, witness=v)
        v = ops.strval(v)
        if isinstance(base, int) and isinstance(v, (CharSet, VSet, AStr)):
            return _int_base(it, v, base, node)
        raise _CE("int(x, base) on abstract value")
    (v,) = args
    v = ops.strval(v)
    if isinstance(v, bool):
        return int(v)
    if isinstance(v, (int, Interval)):
        return v
    if isinstance(v, float):
        return int(v)
    if isinstance(v, VSet):
        good, bad = [], []
        for x in v.vals:
            try:
                good.append(int(x))
            except (ValueError, TypeError):
                bad.append(x)
        if bad:
            it.may_raise("ValueError", node, f"int() of {bad[0]!r}", certain=not good, witness=bad[0])
        return join_values(good)
    if isinstance(v, str):
        try:
            return int(v)
        except ValueError as e:
            it.may_raise("ValueError", node, f"invalid literal for int(): {v!r}", certain=True, witness=v)
    if isinstance(v, CharSet):
        good, bad = [], []
        for e in elements(v):
            r = _int_of_char(it, e, node, None)
            if r is None:
                bad.append(e)
            else:
                good.extend(r)
        if bad:
            w = bad[0] if isinstance(bad[0], str) else next(iter(bad[0].chars))
            it.may_raise("ValueError", node, f"int() of a non-digit character {w!r}", certain=not good, witness=w)
        return join_values(good)
    if isinstance(v, AStr):
        n = len(v)
        if n == 0:
            it.may_raise("ValueError", node, "int() of empty string", certain=True, witness="")
        bad = None
        all_bad = False
        neg = False
        for i, p in enumerate(v.pos):
            chars = p.chars if isinstance(p, CharSet) else frozenset(p)
            nondig = [c for c in chars if c not in ASCII_DIGITS and c != ND]
            if nondig and bad is None:
                bad = (i, sorted(nondig)[0])
            if i == 0 and "-" in chars:
                neg = True
            if not (chars - set(nondig)):
                if not (i == 0 and chars <= {"+", "-"}):
                    all_bad = True
        if bad is not None:
            it.may_raise("ValueError", node, f"int() of a string with non-digit {bad[1]!r} at index {bad[0]}",
                         certain=all_bad, witness=bad)
        # exact when few combinations
        combos = 1
        for p in v.pos:
            combos *= len(p.chars) if isinstance(p, CharSet) else 1
        if combos <= 2000 and all((isinstance(p, str) and p in ASCII_DIGITS) or
                                  (isinstance(p, CharSet) and p.chars <= set(ASCII_DIGITS)) for p in v.pos):
            vals = [0]
            for p in v.pos:
                ds = [int(c) for c in (p.chars if isinstance(p, CharSet) else p)]
                vals = [x * 10 + d for x in vals for d in ds]
            return join_values(vals)
        lo = 0
        hi = 0
        for p in v.pos:
            chars = p.chars if isinstance(p, CharSet) else frozenset(p)
            ds = [int(c) for c in chars if c in ASCII_DIGITS] + ([0, 9] if ND in chars else [])
            if not ds:
                ds = [0]
            lo = lo * 10 + min(ds)
            hi = hi * 10 + max(ds)
        if neg:
            lo = -(10 ** (n - 1) - 1)
        return lo if lo == hi else Interval(lo, hi)
    if isinstance(v, ABag):
        nondig = [c for c in v.cs.chars if c not in ASCII_DIGITS and c != ND]
        if nondig or v.lo == 0:
            only_bad = not (v.cs.chars - set(nondig))
            it.may_raise("ValueError", node, "int() of a string that may be empty or contain a non-digit",
                         certain=only_bad and v.lo > 0, witness=(sorted(nondig)[0] if nondig else ""))
        return Interval(0, 10 ** v.hi - 1)
    if isinstance(v, (SStr, Sym)):
        it.event("sym_partial", op="int", operand=v, exc="ValueError", node=node, where=it._where(node),
                 func=it.cur_frame.func.short if it.cur_frame.func else None)
        return Sym("int", v)
    if isinstance(v, Unknown):
        return Unknown("int")
    raise _CE(f"int of {v!r}")


def _b_str(it, args, kwargs, node):
    from . import ops
    if not args:
        return ""
    return ops.to_str(it, args[0], node)


def _b_sum(it, args, kwargs, node):
    from . import ops
    src = args[0]
    start = args[1] if len(args) > 1 else kwargs.get("start", 0)
    if isinstance(src, ops.BagOf):
        s = ops.as_intset(src.item)
        if s is None:
            raise _CE("sum over a bag of non-integers")
        a, b = ops.bounds(s)
        c = [a * src.lo, a * src.hi, b * src.lo, b * src.hi]
        return ops.binop(it, "Add", start, Interval(min(c), max(c)), node)
    total = start
    for x in ops.iterate(it, src, node):
        total = ops.binop(it, "Add", total, x, node)
    return total


def _b_zip(it, args, kwargs, node):
    from . import ops
    return ops.ZipVal(list(args))


class EnumBag:
    def __init__(self, bag, start):
        self.bag = bag
        self.start = start


def _b_enumerate(it, args, kwargs, node):
    from . import ops
    start = args[1] if len(args) > 1 else kwargs.get("start", 0)
    if isinstance(ops.strval(args[0]), ABag) and isinstance(start, int):
        return EnumBag(ops.strval(args[0]), start)
    return [(i + start, x) for i, x in enumerate(ops.iterate(it, args[0], node))]


def _b_reversed(it, args, kwargs, node):
    from . import ops
    v = ops.strval(args[0])
    if isinstance(v, ABag):
        return v
    return list(reversed(ops.iterate(it, v, node)))


def _b_range(it, args, kwargs, node):
    if any(is_abstract(a) for a in args):
        if len(args) >= 2 and isinstance(args[1], Sym):
            raise _CE("range over symbolic bound")
        raise _CE("range over abstract bound")
    return range(*args)


def _keyfunc(it, key, node):
    if key is None:
        return lambda x: x
    return lambda x: it.call(key, [x], {}, node)


def _b_sorted(it, args, kwargs, node):
    from . import ops
    items = ops.iterate(it, args[0], node)
    key = kwargs.get("key")
    rev = kwargs.get("reverse", False)
    if len(items) <= 1 and not is_abstract(rev):
        return list(items)
    keys = [_keyfunc(it, key, node)(x) for x in items]
    if any(is_abstract(k) for k in keys) or is_abstract(rev):
        it.event("abstract_sort", node=node)
        return Unknown("sorted on abstract keys")
    ks = [ops.strval(k) if isinstance(k, Obj) else k for k in keys]
    try:
        order = sorted(range(len(items)), key=lambda i: ks[i], reverse=bool(rev))
    except TypeError:
        it.may_raise("TypeError", node, "unorderable sort keys", certain=True)
    return [items[i] for i in order]


def _b_all(it, args, kwargs, node):
    from . import ops
    res = [ops.truth_of(x) for x in ops.iterate(it, args[0], node)]
    if any(r is False for r in res):
        return False
    if all(r is True for r in res):
        return True
    return VSet([True, False])


def _b_any(it, args, kwargs, node):
    from . import ops
    res = [ops.truth_of(x) for x in ops.iterate(it, args[0], node)]
    if any(r is True for r in res):
        return True
    if all(r is False for r in res):
        return False
    return VSet([True, False])


def _b_bool(it, args, kwargs, node):
    if not args:
        return False
    return it.truth(args[0], node)


def _b_tuple(it, args, kwargs, node):
    from . import ops
    return tuple(ops.iterate(it, args[0], node)) if args else ()


def _b_list(it, args, kwargs, node):
    from . import ops
    return list(ops.iterate(it, args[0], node)) if args else []


def _b_dict(it, args, kwargs, node):
    from . import ops
    d = {}
    if args:
        src = args[0]
        if isinstance(src, dict):
            d.update(src)
        else:
            for k, v in ops.iterate(it, src, node):
                d[k] = v
    d.update(kwargs)
    return d


def _b_frozenset(it, args, kwargs, node):
    from . import ops
    if not args:
        return frozenset()
    items = ops.iterate(it, args[0], node)
    if any(is_abstract(x) for x in items):
        raise _CE("set of abstract values")
    return frozenset(items)


_TYPE_PRED = {
    "builtins.dict": lambda v: isinstance(v, dict),
    "builtins.list": lambda v: isinstance(v, list),
    "builtins.tuple": lambda v: isinstance(v, tuple) and not (v and v[0] == "path"),
    "builtins.str": lambda v: isinstance(v, (str, AStr, ABag, SStr, CharSet)) or (isinstance(v, Obj) and v.strval is not None),
    "builtins.int": lambda v: isinstance(v, (int, Interval)) or (isinstance(v, VSet) and all(isinstance(x, int) for x in v.vals)),
    "builtins.bool": lambda v: isinstance(v, bool),
    "pathlib.Path": lambda v: isinstance(v, tuple) and bool(v) and v[0] == "path",
}


def _b_isinstance(it, args, kwargs, node):
    v, t = args
    ts = list(t) if isinstance(t, tuple) else [t]
    res = False
    for x in ts:
        if isinstance(x, ClsRef):
            if isinstance(v, Obj) and x.cls in v.cls.mro(it.program):
                return True
            if isinstance(v, ExcVal) and not isinstance(v.cls, str) and x.cls in v.cls.mro(it.program):
                return True
        elif isinstance(x, ExtRef):
            p = _TYPE_PRED.get(x.name)
            if p is None:
                raise _CE(f"isinstance against {x.name}")
            if isinstance(v, (Unknown, Sym)):
                return Unknown("isinstance")
            if p(v):
                return True
        else:
            raise _CE("isinstance type")
    return res


def _minmax(which):
    def f(it, args, kwargs, node):
        from . import ops
        items = list(args) if len(args) > 1 else ops.iterate(it, args[0], node)
        if any(is_abstract(x) for x in items):
            sets = [ops.as_intset(x) for x in items]
            if any(s is None for s in sets):
                raise _CE("min/max of abstract non-integers")
            los = [ops.bounds(s)[0] for s in sets]
            his = [ops.bounds(s)[1] for s in sets]
            return Interval(which(los), which(his))
        if not items:
            if "default" in kwargs:
                return kwargs["default"]
            it.may_raise("ValueError", node, "min()/max() of empty sequence", certain=True)
        if kwargs.get("key") is not None or any(isinstance(x, Obj) for x in items):
            # string value objects order by their text (as sorted() above); the first extreme item wins, as in CPython
            keys = [_keyfunc(it, kwargs.get("key"), node)(x) for x in items]
            if any(is_abstract(k) for k in keys):
                raise _CE("min/max on abstract keys")
            ks = [ops.strval(k) if isinstance(k, Obj) else k for k in keys]
            try:
                return items[which(range(len(items)), key=lambda i: ks[i])]
            except TypeError:
                it.may_raise("TypeError", node, "unorderable min/max keys", certain=True)
        return which(items)
    return f


def _b_abs(it, args, kwargs, node):
    from . import ops
    (v,) = args
    s = ops.as_intset(v)
    if s is None:
        raise _CE("abs")
    if s[0] == "set":
        return ops.mk_int(abs(x) for x in s[1])
    lo, hi = s[1], s[2]
    return Interval(0 if lo <= 0 <= hi else min(abs(lo), abs(hi)), max(abs(lo), abs(hi)))


def _b_hash(it, args, kwargs, node):
    from . import ops
    (v,) = args
    if isinstance(v, Obj):
        r = v.cls.lookup(it.program, "__hash__")
        if r is not None and r[1] == "method":
            return it.call_func(r[2], [v], {}, node)
    return Sym("hash", ops.freeze(ops.strval(v)))


def _b_repr(it, args, kwargs, node):
    return Unknown("repr")


def _b_type(it, args, kwargs, node):
    (v,) = args
    if isinstance(v, Obj):
        return ClsRef(v.cls)
    raise _CE("type()")


def _b_getattr(it, args, kwargs, node):
    if len(args) >= 2 and isinstance(args[1], str):
        try:
            return it.getattr(args[0], args[1], node)
        except Exception:
            if len(args) == 3:
                return args[2]
            raise
    raise _CE("getattr")


def _b_ord(it, args, kwargs, node):
    (v,) = args
    if isinstance(v, str) and len(v) == 1:
        return ord(v)
    if isinstance(v, CharSet):
        vals = [ord(c) for c in v.chars if c not in (ND, OT)]
        if ND in v.chars or OT in v.chars:
            return Interval(min(vals + [128]), 0x10FFFF)
        return join_values(vals)
    raise _CE("ord of abstract char")


def _b_chr(it, args, kwargs, node):
    from . import ops
    (v,) = args
    s = ops.as_intset(v)
    if s and s[0] == "set":
        return join_values([chr(x) for x in s[1]])
    raise _CE("chr")


def _b_divmod(it, args, kwargs, node):
    from . import ops
    a, b = args
    return (ops.binop(it, "FloorDiv", a, b, node), ops.binop(it, "Mod", a, b, node))


def _b_pow(it, args, kwargs, node):
    from . import ops
    if all(isinstance(a, int) and not isinstance(a, bool) for a in args) and len(args) in (2, 3):
        try:
            return pow(*args)
        except (ValueError, ZeroDivisionError) as e:
            it.may_raise(type(e).__name__, node, str(e), certain=True)
    r = ops.binop(it, "Pow", args[0], args[1], node)
    if len(args) == 3:
        r = ops.binop(it, "Mod", r, args[2], node)
    return r


def _b_map(it, args, kwargs, node):
    from . import ops
    f = args[0]
    if any(isinstance(a, CycleVal) for a in args[1:]):
        # map(f, xs, cycle(ws)): the shortest finite argument bounds it, exactly as zip() does
        rows = ops.ZipVal(list(args[1:])).items(it, node)
        return [it.call(f, list(xs), {}, node) for xs in rows]
    seqs = [ops.iterate(it, a, node) for a in args[1:]]
    return [it.call(f, list(xs), {}, node) for xs in zip(*seqs)]


def _b_filter(it, args, kwargs, node):
    from . import ops
    f, seq = args
    out = []
    for x in ops.iterate(it, seq, node):
        v = x if f is None else it.call(f, [x], {}, node)
        if it.truth(v, node):
            out.append(x)
    return out


def _dict_fromkeys(it, args, kwargs, node):
    from . import ops
    keys = ops.iterate(it, args[0], node)
    val = args[1] if len(args) > 1 else None
    if any(is_abstract(k) for k in keys):
        raise _CE("dict.fromkeys with abstract keys")
    return {k: val for k in keys}


def _b_format(it, args, kwargs, node):
    from . import ops
    if kwargs or not 1 <= len(args) <= 2:
        raise _CE("format() arguments")
    spec = args[1] if len(args) == 2 else ""
    if is_abstract(spec):
        raise _CE("abstract format spec")
    return ops.format_value(it, args[0], -1, spec, node)


_BUILTINS = {
    "format": _b_format, "map": _b_map, "filter": _b_filter,
    "len": _b_len, "int": _b_int, "str": _b_str, "sum": _b_sum, "zip": _b_zip, "enumerate": _b_enumerate,
    "reversed": _b_reversed, "range": _b_range, "sorted": _b_sorted, "all": _b_all, "any": _b_any,
    "bool": _b_bool, "tuple": _b_tuple, "list": _b_list, "dict": _b_dict, "frozenset": _b_frozenset,
    "set": _b_frozenset, "isinstance": _b_isinstance, "min": _minmax(min), "max": _minmax(max),
    "abs": _b_abs, "hash": _b_hash, "repr": _b_repr, "type": _b_type, "getattr": _b_getattr,
    "ord": _b_ord, "chr": _b_chr, "divmod": _b_divmod, "pow": _b_pow,
}


# ------------------------------------------------------------------------------------------------ str methods

def _sv(recv):
    from . import ops
    return ops.strval(recv)


def _s_join(it, recv, args, kwargs, node):
    from . import ops
    sep = _sv(recv)
    src = args[0]
    if isinstance(src, ops.BagOf):
        item = ops.to_str(it, src.item, node) if not ops.is_strlike(src.item) else ops.strval(src.item)
        if sep != "":
            raise _CE("join of a bag with separator")
        if isinstance(item, (str, CharSet, AStr, VSet, ABag)):
            if isinstance(item, str):
                lo, hi, cs = len(item), len(item), set(item)
            elif isinstance(item, CharSet):
                lo, hi, cs = 1, 1, set(item.chars)
            elif isinstance(item, AStr):
                lo, hi, cs = len(item), len(item), set(item.charset().chars)
            elif isinstance(item, ABag):
                lo, hi, cs = item.lo, item.hi, set(item.cs.chars)
            else:
                lo = min(len(x) for x in item.vals); hi = max(len(x) for x in item.vals)
                cs = set("".join(item.vals))
            return ABag(lo * src.lo, hi * src.hi, CharSet(cs))
        raise _CE("join of a bag")
    items = ops.iterate(it, src, node)
    for x in items:
        if not ops.is_strlike(x) and not isinstance(ops.strval(x), (Sym, Unknown)):
            it.may_raise("TypeError", node, f"sequence item: expected str instance, {type(x).__name__} found", certain=True)
    if not items:
        return ""
    parts = []
    for i, x in enumerate(items):
        if i:
            parts.append(sep)
        parts.append(x)
    return ops.concat_strs(it, parts, node)


def _upper_char(c):
    u = c.upper()
    return u


def _s_upper(it, recv, args, kwargs, node):
    v = _sv(recv)
    if isinstance(v, str):
        return v.upper()
    if isinstance(v, SStr):
        return v if v.clean else Sym("upper", v)
    if isinstance(v, Sym):
        return Sym("upper", v)
    if isinstance(v, CharSet):
        up = frozenset(c if c in (ND, OT) else c.upper() for c in v.chars)
        return v if up == v.chars else CharSet(up)   # same instance when nothing changes (keeps position identity)
    if isinstance(v, AStr):
        pos = [_s_upper(it, p, [], {}, node) for p in v.pos]
        if all(a is b for a, b in zip(pos, v.pos)):
            return v
        return AStr.make(pos)
    if isinstance(v, ABag):
        return ABag(v.lo, v.hi, _s_upper(it, v.cs, [], {}, node))
    if isinstance(v, VSet):
        return join_values([x.upper() for x in v.vals])
    if isinstance(v, Unknown):
        return v
    raise _CE("upper")


def _s_lower(it, recv, args, kwargs, node):
    v = _sv(recv)
    if isinstance(v, str):
        return v.lower()
    if isinstance(v, CharSet):
        return CharSet(c if c in (ND, OT) else c.lower() for c in v.chars)
    if isinstance(v, AStr):
        return AStr.make([_s_lower(it, p, [], {}, node) for p in v.pos])
    if isinstance(v, VSet):
        return join_values([x.lower() for x in v.vals])
    raise _CE("lower")


def _s_zfill(it, recv, args, kwargs, node):
    v = _sv(recv)
    (w,) = args
    if is_abstract(w):
        raise _CE("zfill abstract width")
    if isinstance(v, str):
        return v.zfill(w)
    if isinstance(v, AStr):
        if len(v) >= w:
            return v
        first = v.pos[0] if v.pos else ""
        fc = first.chars if isinstance(first, CharSet) else set(first)
        if fc & {"+", "-"}:
            raise _CE("zfill with possible sign")
        return AStr.make(("0",) * (w - len(v)) + v.pos)
    if isinstance(v, ABag):
        return ABag(max(v.lo, w), max(v.hi, w), CharSet(set(v.cs.chars) | {"0"}))
    if isinstance(v, SStr):
        return Sym("zfill", v, w)
    if isinstance(v, VSet):
        return join_values([x.zfill(w) for x in v.vals])
    if isinstance(v, Unknown):
        return v
    raise _CE("zfill")


def _strip(side):
    def f(it, recv, args, kwargs, node):
        v = _sv(recv)
        chars = args[0] if args else None
        if is_abstract(chars):
            raise _CE("strip abstract chars")
        if isinstance(v, str):
            return getattr(v, side)(chars) if chars is not None else getattr(v, side)()
        if isinstance(v, VSet):
            return join_values([getattr(x, side)(chars) if chars is not None else getattr(x, side)() for x in v.vals])
        if isinstance(v, AStr) and chars is not None and side in ("lstrip", "rstrip"):
            pos = list(v.pos) if side == "lstrip" else list(reversed(v.pos))
            # choose how many characters are stripped
            options = []
            k = 0
            while True:
                if k == len(pos):
                    options.append((k, None))
                    break
                p = pos[k]
                pc = p.chars if isinstance(p, CharSet) else frozenset(p)
                keep = pc - set(chars)
                strip = pc & set(chars)
                if keep:
                    options.append((k, CharSet(keep)))
                if not strip:
                    break
                k += 1
            c = it.choose(len(options), "strip count")
            k, first = options[c]
            rest = pos[k:]
            if first is not None:
                rest = [first] + rest[1:]
            # the stripped prefix is known to consist of stripped characters only
            if side == "rstrip":
                rest = list(reversed(rest))
            return AStr.make(rest)
        if isinstance(v, ABag):
            return ABag(0, v.hi, v.cs)
        if isinstance(v, Unknown):
            return v
        if isinstance(v, SStr) and v.clean and chars is None:
            return v   # nothing to strip: the clean universe has no whitespace
        if isinstance(v, (SStr, Sym)):
            return Sym("method", v, side, tuple(args))
        raise _CE(side)
    return f


def _s_startswith(it, recv, args, kwargs, node):
    from . import ops
    v = _sv(recv)
    (p,) = args
    if isinstance(v, str) and isinstance(p, (str, tuple)):
        return v.startswith(p)
    if isinstance(p, str):
        if isinstance(v, (AStr,)):
            if len(v) < len(p):
                return False
            return ops.compare(it, "Eq", AStr.make(v.pos[: len(p)]), p, node)
        if isinstance(v, (SStr, Sym)):
            return Sym("startswith", v, p)
        if isinstance(v, VSet):
            return join_values([x.startswith(p) for x in v.vals])
    if isinstance(v, (ABag, Unknown)):
        return VSet([True, False])
    raise _CE("startswith")


def _s_endswith(it, recv, args, kwargs, node):
    from . import ops
    v = _sv(recv)
    (p,) = args
    if isinstance(v, str) and isinstance(p, (str, tuple)):
        return v.endswith(p)
    if isinstance(p, str):
        if isinstance(v, AStr):
            if len(v) < len(p):
                return False
            return ops.compare(it, "Eq", AStr.make(v.pos[len(v) - len(p):]), p, node)
        if isinstance(v, (SStr, Sym)):
            return Sym("endswith", v, p)
        if isinstance(v, VSet):
            return join_values([x.endswith(p) for x in v.vals])
    if isinstance(v, (ABag, Unknown)):
        return VSet([True, False])
    raise _CE("endswith")


def _s_index(it, recv, args, kwargs, node):
    v = _sv(recv)
    sub = _sv(args[0])
    if len(args) > 1:
        raise _CE("index with start")
    if isinstance(v, str):
        if isinstance(sub, str):
            i = v.find(sub)
            if i < 0:
                it.may_raise("ValueError", node, f"substring {sub!r} not found", certain=True, witness=sub)
            return i
        if isinstance(sub, CharSet):
            good, bad = [], []
            for e in elements(sub):
                if isinstance(e, str) and e in v:
                    good.append(v.index(e))
                else:
                    bad.append(e if isinstance(e, str) else next(iter(e.chars)))
            if bad:
                it.may_raise("ValueError", node, f"character {sorted(bad)[0]!r} not found by str.index", certain=not good,
                             witness=sorted(bad)[0])
            return join_values(good)
        if isinstance(sub, VSet):
            good = [v.index(x) for x in sub.vals if x in v]
            bad = [x for x in sub.vals if x not in v]
            if bad:
                it.may_raise("ValueError", node, f"substring {bad[0]!r} not found", certain=not good, witness=bad[0])
            return join_values(good)
        if isinstance(sub, (Sym, SStr)):
            it.event("sym_partial", op="str.index", operand=sub, container=v, exc="ValueError", node=node,
                     where=it._where(node), func=it.cur_frame.func.short if it.cur_frame.func else None)
            return Sym("index", v, sub)
    raise _CE(f"index on {v!r}")


def _s_find(it, recv, args, kwargs, node):
    v = _sv(recv)
    sub = _sv(args[0])
    if isinstance(v, str) and isinstance(sub, str):
        return v.find(sub)
    if isinstance(v, str) and isinstance(sub, CharSet):
        return join_values([v.find(e) if isinstance(e, str) else -1 for e in elements(sub)])
    raise _CE("find")


def _s_format(it, recv, args, kwargs, node):
    v = _sv(recv)
    if isinstance(v, str) and not any(is_abstract(a) for a in args) and not kwargs:
        try:
            return v.format(*[_sv(a) for a in args])
        except (IndexError, KeyError, ValueError) as e:
            it.may_raise(type(e).__name__, node, str(e), certain=True)
    return Unknown("format")


def _pred(pyname, digits_true, nd, ot):
    def f(it, recv, args, kwargs, node):
        v = _sv(recv)
        if isinstance(v, str):
            return getattr(v, pyname)()
        if pyname == "isascii" and isinstance(recv, Obj) and isinstance(v, AStr) and recv.strval is v:
            # mixed case: fork, and on the true side narrow the object's text to its ASCII concretisations
            kinds = [(any(c in (ND, OT) for c in (p.chars if isinstance(p, CharSet) else p)), all(c in (ND, OT) for c in (p.chars if isinstance(p, CharSet) else p))) for p in v.pos]
            if any(only for _, only in kinds):
                return False
            if not any(some for some, _ in kinds):
                return True
            if it.choose(2, "isascii") == 0:
                log = getattr(it, "undo_log", None)
                if log is not None:
                    log.append((recv, "\0strval", v))
                recv.strval = AStr.make([p if not isinstance(p, CharSet) else CharSet([c for c in p.chars if c not in (ND, OT)]) for p in v.pos])
                return True
            return False
        def one(c):
            if c == ND:
                return nd
            if c == OT:
                return ot
            return getattr(c, pyname)()
        if isinstance(v, CharSet):
            rs = {one(c) for c in v.chars}
            if None in rs or len(rs) > 1:
                return VSet([True, False])
            return rs.pop()
        if isinstance(v, AStr):
            if not v.pos:
                return False
            rs = []
            for p in v.pos:
                rs.append(f(it, p, [], {}, node))
            if any(r is False for r in rs):
                return False
            if all(r is True for r in rs):
                return True
            return VSet([True, False])
        if isinstance(v, (ABag, Unknown)):
            return VSet([True, False])
        if isinstance(v, VSet):
            return join_values([getattr(x, pyname)() for x in v.vals])
        if isinstance(v, (SStr, Sym)):
            return Sym("strpred", pyname, v)
        raise _CE(pyname)
    return f


def _s_replace(it, recv, args, kwargs, node):
    v = _sv(recv)
    if isinstance(v, str) and all(isinstance(a, (str, int)) for a in args):
        return v.replace(*args)
    if isinstance(v, VSet) and all(isinstance(a, (str, int)) for a in args):
        return join_values([x.replace(*args) for x in v.vals])
    if isinstance(v, (AStr, ABag)) and len(args) == 2 and all(isinstance(a, str) for a in args):
        old, new = args
        cs = v.charset() if isinstance(v, AStr) else v.cs
        if len(old) == 1 and old not in cs.chars:
            return v
        hi = len(v) if isinstance(v, AStr) else v.hi
        return ABag(0 if new == "" else (len(v) if isinstance(v, AStr) and len(new) >= 1 else 0), hi * max(1, len(new)),
                    CharSet(set(cs.chars) | set(new)))
    if isinstance(v, (SStr, Sym)):
        return Sym("replace", v, tuple(args))
    raise _CE("replace")


def _s_split(it, recv, args, kwargs, node):
    v = _sv(recv)
    if isinstance(v, str) and all(not is_abstract(a) for a in args):
        return v.split(*args)
    raise _CE("split")


def _s_count(it, recv, args, kwargs, node):
    v = _sv(recv)
    if isinstance(v, str) and isinstance(args[0], str):
        return v.count(args[0])
    raise _CE("count")


def _s_encode(it, recv, args, kwargs, node):
    raise _CE("encode")


def _s_maketrans(it, recv, args, kwargs, node):
    if all(isinstance(a, (str, dict)) for a in args):
        return ("transtable", str.maketrans(*args))
    raise _CE("str.maketrans on abstract arguments")


def _s_translate(it, recv, args, kwargs, node):
    v = _sv(recv)
    t = args[0]
    if isinstance(t, dict) and all(isinstance(k, int) for k in t) and all(x is None or isinstance(x, (str, int)) for x in t.values()):
        t = ("transtable", t)
    if not (isinstance(t, tuple) and t and t[0] == "transtable"):
        raise _CE("str.translate with an unmodelled table")
    table = t[1]
    if isinstance(v, str):
        return v.translate(table)
    if isinstance(v, VSet):
        return join_values([x.translate(table) for x in v.vals])
    deleted = frozenset(chr(k) for k, x in table.items() if x is None)
    mapped = {chr(k): (x if isinstance(x, str) else chr(x)) for k, x in table.items() if x is not None}
    if isinstance(v, SStr) and v.clean and not mapped and all(c.isspace() for c in deleted):
        return v   # deleting whitespace from a text of the clean universe is the identity
    if isinstance(v, (SStr, Sym)):
        return Sym("translate", v, deleted, tuple(sorted(mapped.items())))
    if isinstance(v, (AStr, ABag, CharSet)) and not mapped:
        cs = v.charset() if isinstance(v, AStr) else (v.cs if isinstance(v, ABag) else v)
        if not (set(cs.chars) & deleted):
            return v
        n = len(v) if isinstance(v, AStr) else (v.hi if isinstance(v, ABag) else 1)
        return ABag(0, n, CharSet(set(cs.chars) - deleted))
    raise _CE("str.translate on abstract text")


def _s_getnewargs(it, recv, args, kwargs, node):
    return (_sv(recv),)


_STR = {
    "__getnewargs__": _s_getnewargs, "maketrans": _s_maketrans, "translate": _s_translate,
    "join": _s_join, "upper": _s_upper, "lower": _s_lower, "zfill": _s_zfill, "lstrip": _strip("lstrip"),
    "rstrip": _strip("rstrip"), "strip": _strip("strip"), "startswith": _s_startswith, "endswith": _s_endswith,
    "index": _s_index, "find": _s_find, "format": _s_format, "replace": _s_replace, "split": _s_split,
    "count": _s_count,
    "isdigit": _pred("isdigit", True, True, None), "isdecimal": _pred("isdecimal", True, True, False),
    "isnumeric": _pred("isnumeric", True, True, None), "isalpha": _pred("isalpha", False, False, None),
    "isalnum": _pred("isalnum", True, True, None), "isupper": _pred("isupper", False, False, None),
    "islower": _pred("islower", False, False, None), "isascii": _pred("isascii", True, False, False),
    "isspace": _pred("isspace", False, False, False),
}


# ------------------------------------------------------------------------------------------------ list / dict / set

def _l_append(it, recv, args, kwargs, node):
    it.event("mutate", obj=recv, op="append", node=node, shared=it.shared_ids.get(id(recv)), where=it._where(node))
    recv.append(args[0])


def _l_extend(it, recv, args, kwargs, node):
    from . import ops
    it.event("mutate", obj=recv, op="extend", node=node, shared=it.shared_ids.get(id(recv)), where=it._where(node))
    recv.extend(ops.iterate(it, args[0], node))


def _l_index(it, recv, args, kwargs, node):
    if any(is_abstract(x) for x in recv) or is_abstract(args[0]):
        raise _CE("list.index abstract")
    try:
        return recv.index(args[0])
    except ValueError:
        it.may_raise("ValueError", node, "value not in list", certain=True)


def _l_pop(it, recv, args, kwargs, node):
    it.event("mutate", obj=recv, op="pop", node=node, shared=it.shared_ids.get(id(recv)), where=it._where(node))
    try:
        return recv.pop(*args)
    except IndexError:
        it.may_raise("IndexError", node, "pop from empty list", certain=True)


def _l_copy(it, recv, args, kwargs, node):
    return list(recv)


def _l_sort(it, recv, args, kwargs, node):
    it.event("mutate", obj=recv, op="sort", node=node, shared=it.shared_ids.get(id(recv)), where=it._where(node))
    res = _b_sorted(it, [recv], kwargs, node)
    if not isinstance(res, list):
        raise _CE("list.sort on abstract keys")
    recv[:] = res
    return None


def _l_reverse(it, recv, args, kwargs, node):
    it.event("mutate", obj=recv, op="reverse", node=node, shared=it.shared_ids.get(id(recv)), where=it._where(node))
    recv.reverse()


_LIST = {"append": _l_append, "extend": _l_extend, "index": _l_index, "pop": _l_pop, "copy": _l_copy, "sort": _l_sort, "reverse": _l_reverse}


def _d_get(it, recv, args, kwargs, node):
    from . import ops
    key = args[0]
    default = args[1] if len(args) > 1 else kwargs.get("default")
    if isinstance(key, (VSet, CharSet)):
        return join_values([recv.get(e, default) if not isinstance(e, CharSet) else default for e in elements(key)])
    if isinstance(key, SStr) and recv and all(isinstance(k, str) for k in recv) and hasattr(it.theory, "feasible_keys"):
        # the text under validation (or a slice of it) as key: fork over the table's keys and the miss, as for table[key]
        return ops.materialise(it, ops.it_symbolic_key(it, recv, key, node, default=default), node)
    if isinstance(key, (SStr, Sym)):
        return Sym("dictget", ops.freeze(recv) if len(recv) < 50 else ("bigdict", id(recv)), key, ops.freeze(default))
    if is_abstract(key):
        cands = [v for k, v in recv.items() if ops.truth_of(ops.compare(it, "Eq", key, k, node)) is not False]
        return join_values(cands + [default])
    try:
        return ops.materialise(it, recv.get(key, default), node)
    except TypeError:
        it.may_raise("TypeError", node, "unhashable key", certain=True)


def _d_items(it, recv, args, kwargs, node):
    return [(k, v) for k, v in recv.items()]


def _d_keys(it, recv, args, kwargs, node):
    return list(recv.keys())


def _d_values(it, recv, args, kwargs, node):
    return list(recv.values())


def _d_pop(it, recv, args, kwargs, node):
    it.event("mutate", obj=recv, op="pop", node=node, shared=it.shared_ids.get(id(recv)), where=it._where(node))
    if is_abstract(args[0]):
        raise _CE("dict.pop abstract key")
    if args[0] in recv:
        return recv.pop(args[0])
    if len(args) > 1:
        return args[1]
    it.may_raise("KeyError", node, f"pop of missing key {args[0]!r}", certain=True, witness=args[0])


def _d_setdefault(it, recv, args, kwargs, node):
    it.event("mutate", obj=recv, op="setdefault", node=node, shared=it.shared_ids.get(id(recv)), where=it._where(node))
    if is_abstract(args[0]):
        raise _CE("dict.setdefault abstract key")
    return recv.setdefault(args[0], args[1] if len(args) > 1 else None)


def _d_update(it, recv, args, kwargs, node):
    it.event("mutate", obj=recv, op="update", node=node, shared=it.shared_ids.get(id(recv)), where=it._where(node))
    for a in args:
        if not isinstance(a, dict):
            raise _CE("dict.update with non-dict")
        recv.update(a)
    recv.update(kwargs)


def _d_copy(it, recv, args, kwargs, node):
    return dict(recv)


_DICT = {"get": _d_get, "items": _d_items, "keys": _d_keys, "values": _d_values, "pop": _d_pop,
         "setdefault": _d_setdefault, "update": _d_update, "copy": _d_copy}

_SET = {
    "union": lambda it, r, a, k, n: frozenset(r).union(*a),
    "intersection": lambda it, r, a, k, n: frozenset(r).intersection(*a),
    "issubset": lambda it, r, a, k, n: frozenset(r).issubset(*a),
}


# ------------------------------------------------------------------------------------------------ re

def _only_space_consumed(pattern, flags=0):
    """True when every character a match of ``pattern`` can contain is a whitespace character."""
    from .relang import Regex, catbits
    try:
        rx = Regex(pattern, flags)
    except AnalysisError:
        return False
    bits = catbits()
    for raw in rx.raws:
        _, neg, items = raw
        if neg:
            return False
        for it_ in items:
            if it_[0] == "lit":
                if not bits[it_[1]] & 2:
                    return False
            elif it_[0] == "range":
                if it_[2] - it_[1] > 4096 or any(not bits[c] & 2 for c in range(it_[1], it_[2] + 1)):
                    return False
            elif it_[0] == "cat":
                if it_[1] != "space":
                    return False
            elif it_[0] == "acat":
                if it_[1] != "space":
                    return False
            else:
                return False
    return True


def _flags_of(v):
    if isinstance(v, int):
        return v
    if isinstance(v, ExtRef) and v.name.startswith("re."):
        return int(getattr(_re, v.name[3:]))
    if v is None:
        return 0
    raise _CE("regex flags")


def _re_compile(it, args, kwargs, node):
    p = args[0]
    flags = _flags_of(args[1] if len(args) > 1 else kwargs.get("flags", 0))
    if isinstance(p, RegexVal):
        return p
    if not isinstance(p, str):
        raise _CE("re.compile of abstract pattern")
    try:
        _re.compile(p, flags)
    except _re.error as e:
        it.may_raise("re.error", node, str(e), certain=True)
    return RegexVal(p, flags)


def _rx(p, flags=0):
    if isinstance(p, RegexVal):
        return p
    if isinstance(p, str):
        return RegexVal(p, flags)
    raise _CE("abstract regex")


def _do_match(it, mode, rx, s, node):
    from . import ops
    orig = s
    s = ops.strval(s)
    if isinstance(s, (SStr, Sym)):
        return Sym("rematch", mode, rx, s)
    if isinstance(s, str):
        m = getattr(_re.compile(rx.pattern, rx.flags), mode)(s)
        return ops.MatchVal(m) if m else None
    if isinstance(s, AStr):
        r = _abstract_match(it, mode, rx, s, orig, node)
        if r is not NotImplemented:
            return r
    if isinstance(s, (AStr, ABag, CharSet, VSet)):
        return Sym("rematch_abs", mode, rx, s)
    if isinstance(s, Unknown):
        return Unknown("match")
    it.may_raise("TypeError", node, "expected string", certain=True)


_amatch_cache = {}


def _abstract_match(it, mode, rx, s, orig, node):
    """Pattern.match / fullmatch / search on a positional abstract string: decided exactly as a regular-language question.  All
    concretisations match -> a match; none -> None; otherwise the path forks and, on the matching side, the text of the object the
    string belongs to is narrowed to the concretisations that can match (per-position projection of the intersection of text language and pattern language)."""
    from . import ops, relang
    if mode not in ("match", "fullmatch"):
        return NotImplemented
    key = (rx.pattern, rx.flags, mode, s)
    hit = _amatch_cache.get(key)
    if hit is None:
        try:
            rg = relang.Regex(rx.pattern, rx.flags)
            raws = list(rg.raws) + [relang.RAW_ASCII_DIGIT, relang.RAW_ASCII_UPPER, relang.RAW_ASCII_LOWER, relang.RAW_DIGIT_UNI, relang.RAW_SPACE_UNI]
            for p_ in s.pos:
                for c in (p_.chars if isinstance(p_, CharSet) else p_):
                    if c not in (ND, OT):
                        raws.append(relang.raw_lit(c))
            A = relang.Alphabet(raws)
            L = rg.language(A, mode)
        except relang.NeedRefine:
            return NotImplemented
        except AnalysisError:
            return NotImplemented
        ascii_alnum = A.atoms_of(relang.RAW_ASCII_DIGIT) | A.atoms_of(relang.RAW_ASCII_UPPER) | A.atoms_of(relang.RAW_ASCII_LOWER)
        nd_atoms = frozenset(A.atoms_of(relang.RAW_DIGIT_UNI)) - frozenset(A.atoms_of(relang.RAW_ASCII_DIGIT))
        ot_atoms = frozenset(A.all_atoms) - frozenset(ascii_alnum) - frozenset(A.atoms_of(relang.RAW_DIGIT_UNI))

        def atoms_of_pos(p_):
            out = set()
            for c in (p_.chars if isinstance(p_, CharSet) else p_):
                if c == ND:
                    out |= nd_atoms
                elif c == OT:
                    out |= ot_atoms
                else:
                    out.add(A.atom_of_char(c))
            return frozenset(out)

        classes = [atoms_of_pos(p_) for p_ in s.pos]
        P = relang.DFA.positional(A, classes)
        inter = P.intersect(L)
        if inter.is_empty():
            hit = ("none", None)
        elif P.included_in(L):
            hit = ("all", None)
        else:
            proj = inter.projections(len(s.pos))
            new = []
            for p_, pr in zip(s.pos, proj):
                keep = set()
                for c in (p_.chars if isinstance(p_, CharSet) else p_):
                    if c == ND:
                        if nd_atoms & pr:
                            keep.add(ND)
                    elif c == OT:
                        if ot_atoms & pr:
                            keep.add(OT)
                    elif A.atom_of_char(c) in pr:
                        keep.add(c)
                new.append(CharSet(keep))
            hit = ("some", AStr.make(new))
        _amatch_cache[key] = hit
    kind, refined = hit
    if kind == "none":
        return None
    if kind == "all":
        return ops.MatchVal(None)
    if it.choose(2, "abstract regex match") == 0:
        if isinstance(orig, Obj) and orig.strval is s:
            log = getattr(it, "undo_log", None)
            if log is not None:
                log.append((orig, "\0strval", s))
            orig.strval = refined
        return ops.MatchVal(None)
    return None


def _mk_module_match(mode):
    def f(it, args, kwargs, node):
        flags = _flags_of(args[2] if len(args) > 2 else kwargs.get("flags", 0))
        return _do_match(it, mode, _rx(args[0], flags), args[1], node)
    return f


def _mk_pattern_match(mode):
    def f(it, recv, args, kwargs, node):
        return _do_match(it, mode, recv, args[0], node)
    return f


def _do_sub(it, rx, repl, s, node, count=0):
    from . import ops
    s = ops.strval(s)
    if count != 0:
        if isinstance(s, str) and isinstance(repl, str) and isinstance(count, int):
            return _re.sub(rx.pattern, repl, s, count=count, flags=rx.flags)
        return Sym("resub_count", rx, ops.freeze(repl) if not isinstance(repl, (FuncRef, Bound)) else "callback", s, ops.freeze(count))
    if isinstance(s, str) and isinstance(repl, str):
        return _re.sub(rx.pattern, repl, s, flags=rx.flags)
    if isinstance(s, str) and isinstance(repl, (FuncRef, Bound)):
        def cb(m):
            r = it.call(repl, [ops.MatchVal(m)], {}, node)
            if not isinstance(r, str):
                raise _CE("re.sub callback returned an abstract value")
            return r
        return _re.sub(rx.pattern, cb, s, flags=rx.flags)
    if repl == "" and _only_space_consumed(rx.pattern, rx.flags):
        # removing whitespace from a string of the clean universe is the identity
        if isinstance(s, SStr) and s.clean:
            return s
        if isinstance(s, (AStr, ABag, CharSet)):
            return s  # abstract strings never contain whitespace atoms
        if isinstance(s, VSet):
            return join_values([_re.sub(rx.pattern, "", x, flags=rx.flags) for x in s.vals])
    if isinstance(s, (SStr, Sym)):
        return Sym("resub", rx, ops.freeze(repl) if not isinstance(repl, (FuncRef, Bound)) else "callback", s)
    if isinstance(s, Unknown):
        return s
    raise _CE("re.sub on abstract string")


def _re_sub(it, args, kwargs, node):
    flags = _flags_of(kwargs.get("flags", args[4] if len(args) > 4 else 0))
    count = kwargs.get("count", args[3] if len(args) > 3 else 0)
    return _do_sub(it, _rx(args[0], flags), args[1], args[2], node, count)


def _p_sub(it, recv, args, kwargs, node):
    count = kwargs.get("count", args[2] if len(args) > 2 else 0)
    return _do_sub(it, recv, args[0], args[1], node, count)


def _m_group(it, recv, args, kwargs, node):
    try:
        return recv.m.group(*args)
    except (IndexError, _re.error) as e:
        it.may_raise("IndexError", node, "no such group", certain=True)


_PATTERN = {"match": _mk_pattern_match("match"), "fullmatch": _mk_pattern_match("fullmatch"),
            "search": _mk_pattern_match("search"), "sub": _p_sub}
_MATCH = {"group": _m_group, "groups": lambda it, r, a, k, n: r.m.groups(),
          "start": lambda it, r, a, k, n: r.m.start(*a), "end": lambda it, r, a, k, n: r.m.end(*a)}


def _sym_method(name):
    def f(it, recv, args, kwargs, node):
        from . import ops
        return Sym("method", recv, name, tuple(ops.freeze(a) for a in args))
    return f


class _SymMethods(dict):
    def __contains__(self, k):
        return True

    def __getitem__(self, k):
        return _sym_method(k)


_SYMM = _SymMethods()


class _UnkMethods(dict):
    def __contains__(self, k):
        return True

    def __getitem__(self, k):
        return lambda it, recv, args, kwargs, node: Unknown(f"method {k} of unknown")


_UNK = _UnkMethods()
_PATHM = {}


# ------------------------------------------------------------------------------------------------ other externals

def _cycle(it, args, kwargs, node):
    from . import ops
    return CycleVal(ops.iterate(it, args[0], node))


def _chain(it, args, kwargs, node):
    from . import ops
    out = []
    for a in args:
        out.extend(ops.iterate(it, a, node))
    return out


def _chain_from_iterable(it, args, kwargs, node):
    from . import ops
    out = []
    for a in ops.iterate(it, args[0], node):
        out.extend(ops.iterate(it, a, node))
    return out


def _itemgetter(it, args, kwargs, node):
    from . import ops
    keys = list(args)

    def getter(it_, a, k, n):
        vals = [ops.subscript(it_, a[0], key, n) for key in keys]
        return vals[0] if len(vals) == 1 else tuple(vals)
    getter._sv_intrinsic = True
    return getter


def _cast(it, args, kwargs, node):
    return args[1]


def _warn(it, args, kwargs, node):
    it.event("warn", node=node)
    return None


def _pycountry_get(it, args, kwargs, node):
    from . import ops
    key = kwargs.get("alpha_2", args[0] if args else None)
    return Sym("pycountry", ops.freeze(ops.strval(key)))


def _unicodedata_normalize(it, args, kwargs, node):
    """unicodedata.normalize(form, s): computed on concrete text; on symbolic / abstract text an opaque rewriting of it (NFKC / NFKD
    change characters, so the result is *not* the argument)."""
    from . import ops
    import unicodedata
    if len(args) != 2 or kwargs:
        raise _CE("unicodedata.normalize arguments")
    form, s = args[0], ops.strval(args[1])
    if isinstance(form, str) and isinstance(s, str):
        try:
            return unicodedata.normalize(form, s)
        except ValueError as e:
            it.may_raise("ValueError", node, str(e), certain=True)
    if isinstance(s, (SStr, Sym)):
        return Sym("call", "unicodedata.normalize", (ops.freeze(form), ops.freeze(s)))
    raise _CE("unicodedata.normalize of an abstract string")


def _pycountry_other(db):
    """A lookup in another pycountry database (historic_countries, subdivisions, ...): an opaque value of its own kind - a
    condition on it is not the ISO 3166-1 lookup the properties speak of."""
    def f(it, args, kwargs, node):
        from . import ops
        key = kwargs.get("alpha_2", args[0] if args else (next(iter(kwargs.values())) if kwargs else None))
        return Sym("pycountry_db", db, ops.freeze(ops.strval(key)))
    return f


def _deepcopy(it, args, kwargs, node):
    """copy.deepcopy: immutables are shared, containers rebuilt, package objects through their own __deepcopy__."""
    x = args[0]
    memo = args[1] if len(args) > 1 else kwargs.get("memo")
    if isinstance(x, Obj):
        r = x.cls.lookup(it.program, "__deepcopy__")
        if r is not None and r[1] == "method":
            return it.call_func(r[2], [x, memo if memo is not None else {}], {}, node)
        return _reduce_copy(it, x, node, deep=True)
    if isinstance(x, dict):
        return {k: _deepcopy(it, [v, memo], {}, node) for k, v in x.items()}
    if isinstance(x, list):
        return [_deepcopy(it, [v, memo], {}, node) for v in x]
    if isinstance(x, tuple):
        return tuple(_deepcopy(it, [v, memo], {}, node) for v in x)
    return x


def _reduce_copy(it, x, node, deep):
    """object.__reduce_ex__(4) protocol: cls.__new__(cls, *__getnewargs__()), then the instance dict."""
    from .values import ClsRef
    for nm in ("__reduce_ex__", "__reduce__"):
        r = x.cls.lookup(it.program, nm)
        if r is not None and r[1] == "method":
            red = it.call_func(r[2], [x] + ([4] if nm == "__reduce_ex__" else []), {}, node)
            if not isinstance(red, tuple) or len(red) < 2:
                raise _CE(f"{nm} returned {red!r}")
            obj = it.call(red[0], list(red[1]), {}, node)
            if len(red) > 2 and isinstance(red[2], dict) and isinstance(obj, Obj):
                for k, v in red[2].items():
                    obj.attrs[k] = _deepcopy(it, [v, None], {}, node) if deep else v
            return obj
    ga = it.getattr(x, "__getnewargs__", node) if (x.cls.lookup(it.program, "__getnewargs__") or x.strval is not None) else None
    newargs = list(it.call(ga, [], {}, node)) if ga is not None else []
    new = it.getattr(ClsRef(x.cls), "__new__", node) if x.cls.lookup(it.program, "__new__") else None
    if new is not None:
        obj = it.call(new, [ClsRef(x.cls)] + newargs, {}, node)
    else:
        obj = Obj(x.cls, strval=x.strval)
    for k, v in x.attrs.items():
        obj.attrs[k] = _deepcopy(it, [v, None], {}, node) if deep else v
    return obj


def _copy(it, args, kwargs, node):
    x = args[0]
    if isinstance(x, Obj):
        r = x.cls.lookup(it.program, "__copy__")
        if r is not None and r[1] == "method":
            return it.call_func(r[2], [x], {}, node)
        return _reduce_copy(it, x, node, deep=False)
    if isinstance(x, dict):
        return dict(x)
    if isinstance(x, list):
        return list(x)
    return x


def _defaultdict(it, args, kwargs, node):
    from . import ops
    if len(args) != 1:
        raise _CE("defaultdict without factory")
    return ops.DefaultDict(args[0])


def _list_factory(it, args, kwargs, node):
    return _b_list(it, args, kwargs, node)


def _files(it, args, kwargs, node):
    return ("path", args[0])


def _json_load(it, args, kwargs, node):
    from . import ops
    import copy as _copy_
    f = args[0]
    vfs = getattr(it, "vfs", None)
    if not isinstance(f, ops.FileVal) or vfs is None:
        raise _CE("json.load outside the virtual file system")
    d, name = f.path[:-1], f.path[-1]
    for n, content in vfs.get(d, []):
        if n == name:
            return _copy_.deepcopy(content)
    it.may_raise("FileNotFoundError", node, str(f.path), certain=True)


def _path_glob(it, recv, args, kwargs, node):
    vfs = getattr(it, "vfs", None)
    if vfs is None:
        raise _CE("glob outside the virtual file system")
    import fnmatch
    names = [n for n, _ in vfs.get(recv, []) if fnmatch.fnmatch(n, args[0])]
    it.event("glob", path=recv, node=node)
    # a directory listing has no guaranteed order: hand the names out in an adversarial (non-sorted) order
    order = getattr(it, "glob_order", None) or (lambda xs: sorted(xs, reverse=True))
    return [recv + (n,) for n in order(names)]


def _path_open(it, recv, args, kwargs, node):
    from . import ops
    return ops.FileVal(recv)


_EXT = {
    "re.compile": _re_compile, "re.match": _mk_module_match("match"), "re.fullmatch": _mk_module_match("fullmatch"),
    "re.search": _mk_module_match("search"), "re.sub": _re_sub,
    "itertools.cycle": _cycle, "itertools.chain": _chain, "itertools.chain.from_iterable": _chain_from_iterable,
    "operator.itemgetter": _itemgetter, "typing.cast": _cast, "warnings.warn": _warn,
    "unicodedata.normalize": _unicodedata_normalize,
    # a read-only view: the mapping itself (the model never writes through it; a write attempt in the tree would be a TypeError there)
    "types.MappingProxyType": lambda it, a, k, n: a[0],
    "pycountry.countries.get": _pycountry_get, "collections.defaultdict": _defaultdict,
    "pycountry.historic_countries.get": _pycountry_other("historic_countries"), "pycountry.countries.lookup": _pycountry_other("countries.lookup"),
    "pycountry.historic_countries.lookup": _pycountry_other("historic_countries.lookup"),
    "copy.deepcopy": _deepcopy, "copy.copy": _copy,
    "builtins.str.maketrans": lambda it, a, k, n: _s_maketrans(it, None, a, k, n),
    "builtins.dict.fromkeys": _dict_fromkeys,
    "importlib.resources.files": _files, "importlib_resources.files": _files, "json.load": _json_load,
}


def _operator_binop(op):
    def f(it, args, kwargs, node):
        from . import ops
        if len(args) != 2 or kwargs:
            raise _CE("operator function arguments")
        return ops.binop(it, op, args[0], args[1], node)
    return f


def _operator_cmp(op):
    def f(it, args, kwargs, node):
        from . import ops
        if len(args) != 2 or kwargs:
            raise _CE("operator function arguments")
        return ops.compare(it, op, args[0], args[1], node)
    return f


_EXT.update({f"operator.{n}": _operator_binop(o) for n, o in (("add", "Add"), ("sub", "Sub"), ("mul", "Mult"), ("floordiv", "FloorDiv"), ("mod", "Mod"),
                                                             ("pow", "Pow"), ("and_", "BitAnd"), ("or_", "BitOr"), ("xor", "BitXor"), ("concat", "Add"))})
_EXT.update({f"operator.{n}": _operator_cmp(o) for n, o in (("eq", "Eq"), ("ne", "NotEq"), ("lt", "Lt"), ("le", "LtE"), ("gt", "Gt"), ("ge", "GtE"))})
_PATHM.update({"glob": _path_glob, "open": _path_open})


# ------------------------------------------------------------------------------------------------ random / rstr

def _random_new(it, args, kwargs, node):
    from . import ops
    it.event("random_new", seeded=bool(args or kwargs), node=node, where=it._where(node))
    return ops.RandVal(bool(args or kwargs), origin=node)


def _rand_choice(it, recv, args, kwargs, node):
    """Random.choice: IndexError on an empty sequence; otherwise any element (representatives)."""
    from . import ops
    seq = ops.iterate(it, args[0], node)
    it.event("random_draw", gen=recv, op="choice", node=node, where=it._where(node))
    if not seq:
        it.may_raise("IndexError", node, "Cannot choose from an empty sequence", certain=True)
    reps = getattr(it, "choice_reps", None)
    cands = reps(seq) if reps else (seq if len(seq) <= 6 else [seq[0], seq[len(seq) // 2], seq[-1]])
    picked = cands[it.choose(len(cands), "random.choice")]
    it.event("random_pick", picked=picked, node=node)
    return picked


def _rstr_new(it, args, kwargs, node):
    from . import ops
    gen = args[0] if args else None
    it.event("rstr_new", gen=gen, node=node, where=it._where(node))
    return ops.RstrVal(gen)


_shape_cache = {}


def regex_shape(pattern, flags=0):
    """Abstract string (AStr) covering every text a full match of ``pattern`` can be (cached per pattern)."""
    k = (pattern, flags)
    if k not in _shape_cache:
        _shape_cache[k] = _regex_shape(pattern, flags)
    return _shape_cache[k]


def _regex_shape(pattern, flags=0):
    from . import relang
    from .values import ND, OT, CharSet, AStr, ABag
    rg = relang.Regex(pattern, flags)
    A = relang.Alphabet(rg.raws + [relang.RAW_ASCII_DIGIT, relang.RAW_ASCII_UPPER, relang.RAW_ASCII_LOWER, relang.RAW_DIGIT_UNI])
    lang = rg.core(A)
    lens, more = lang.lengths(64)
    if more or not lens:
        raise _CE("regex of unbounded length")
    digit_uni = A.atoms_of(relang.RAW_DIGIT_UNI)

    def chars_of(atoms):
        out = set()
        for c in range(128):
            if A.atom_of_cp(c) in atoms:
                out.add(chr(c))
        for a in atoms:
            if A.atom_rep[a] >= 128 or A.atom_count[a] > sum(1 for c in range(128) if A.atom_of_cp(c) == a):
                out.add(ND if a in digit_uni else OT)
        return CharSet(out)

    shapes = []
    for n in sorted(lens):
        proj = lang.projections(n)
        shapes.append(AStr.make([chars_of(p) for p in proj]))
    if len(shapes) == 1:
        return shapes[0]
    return shapes


def _rstr_xeger(it, recv, args, kwargs, node):
    from . import ops
    rx = args[0]
    it.event("random_draw", gen=recv.gen, op="xeger", node=node, where=it._where(node))
    if isinstance(rx, str):
        rx = RegexVal(rx, 0)
    if not isinstance(rx, RegexVal):
        raise _CE("xeger of an abstract pattern")
    # rstr expands \d / \w / \s from its ASCII alphabets (string.digits, ...): exactly the re.ASCII reading of the pattern
    shape = regex_shape(rx.pattern, rx.flags | _re.ASCII)
    if isinstance(shape, list):
        return shape[it.choose(len(shape), "xeger length")]
    return shape


_RANDOM = {"choice": _rand_choice}
_RSTR = {"xeger": _rstr_xeger}
_EXT.update({"random.Random": _random_new, "rstr.Rstr": _rstr_new})
