"""Symbolic exploration of the validating entry points of IBAN and BIC.

The text under validation is the symbolic string S (already normalised by ``clean`` — rule R10-norm
establishes that).  Every path through the constructor / validate / is_valid is enumerated; a path
carries a regular language for S and a valuation of opaque atoms, and ends in return or raise.
"""
from __future__ import annotations

from .interp import CannotEvaluate, PathLimit
from .relang import NeedRefine
from .srcmodel import AnalysisError, Class
from .theory import StringTheory, base_alphabet, clean_universe
from .values import ExcVal, Obj, SStr, Sym

S = SStr(("S", "text"), clean=True)


class VPath:
    def __init__(self, out):
        self.kind = out.kind
        self.value = out.value
        self.events = out.events
        self.assumptions = out.assumptions
        snap = out.theory or {}
        self.lang = snap.get("lang")
        self.atoms = snap.get("atoms", {})
        self.eq = snap.get("eq", {})

    @property
    def exc_name(self):
        return self.value.name if self.kind == "raise" else None

    def country(self):
        return self.eq.get(("slice", ("S", "text"), 0, 2))


class ValidatorAnalysis:
    """Runs with alphabet refinement: NeedRefine restarts the whole exploration on a finer alphabet."""

    def __init__(self, facts):
        self.facts = facts
        self.alpha = base_alphabet()
        self.runs = 0

    def _with_refinement(self, fn):
        for _ in range(12):
            try:
                return fn()
            except NeedRefine as e:
                self.alpha = self.alpha.refined(e.raw)
        raise AnalysisError("alphabet refinement does not converge")

    def theory(self):
        return StringTheory(self.alpha, clean_universe(self.alpha))

    def explore(self, cls_qual, entry, kwargs=None, intrinsics=None, max_paths=60000, prepare=None):
        """entry: 'init' (validating constructor), 'validate', 'is_valid'.  Returns list of VPath."""
        prog = self.facts.program
        cls = prog.get(cls_qual)
        if not isinstance(cls, Class):
            raise AnalysisError(f"anchor vanished: {cls_qual}")
        kwargs = dict(kwargs or {})

        def run():
            self.runs += 1
            th = self.theory()
            it = self.facts.interp(theory=th, max_paths=max_paths)
            for q, f in (intrinsics or {}).items():
                it.intrinsics[q] = f
            if prepare:
                prepare(it)

            def thunk():
                obj = Obj(cls, strval=S)
                init = cls.lookup(prog, "__init__")
                if entry == "init":
                    if init is None or init[1] != "method":
                        raise AnalysisError(f"{cls.short} has no __init__")
                    it.call_func(init[2], [obj, Sym("raw_text")], dict(kwargs), None)
                    return obj
                # object built with validation off, then the entry point
                if init is not None and init[1] == "method":
                    it.call_func(init[2], [obj, Sym("raw_text")], {"allow_invalid": True}, None)
                it.event("entry", name=entry)
                if entry == "validate":
                    return it.call(it.getattr(obj, "validate"), [], dict(kwargs))
                if entry == "is_valid":
                    return it.getattr(obj, "is_valid")
                raise AnalysisError(f"unknown entry {entry}")

            try:
                outs = it.explore(thunk)
            except CannotEvaluate as e:
                raise AnalysisError(f"{cls.short}.{entry}: construct outside the evaluator's model: {e}")
            except PathLimit as e:
                raise AnalysisError(f"{cls.short}.{entry}: {e}")
            self.last_interp = it
            return [VPath(o) for o in outs if o.kind != "infeasible"]

        return self._with_refinement(run)
