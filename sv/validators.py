"""Symbolic exploration of the validating entry points of IBAN and BIC.

The text under validation is the symbolic string S (already normalised by ``clean`` — rule R10-norm
establishes that).  Every path through the constructor / validate / is_valid is enumerated; a path
carries a regular language for S and a valuation of opaque atoms, and ends in return or raise.
"""
from __future__ import annotations

from .interp import CannotEvaluate, PathLimit
from .relang import NeedRefine
from .srcmodel import AnalysisError, Class
from .theory import StringTheory, base_alphabet, clean_universe
from .values import ExcVal, Obj, SStr, Sym

S = SStr(("S", "text"), clean=True)


class VPath:
    def __init__(self, out):
        self.kind = out.kind
        self.value = out.value
        self.events = out.events
        self.assumptions = out.assumptions
        snap = out.theory or {}
        self.lang = snap.get("lang")
        self.atoms = snap.get("atoms", {})
        self.eq = snap.get("eq", {})

    @property
    def exc_name(self):
        return self.value.name if self.kind == "raise" else None

    def country(self):
        return self.eq.get(("slice", ("S", "text"), 0, 2))


class ValidatorAnalysis:
    """Runs with alphabet refinement: NeedRefine restarts the whole exploration on a finer alphabet."""

    def __init__(self, facts):
        self.facts = facts
        self.runs = 0
        self.opaque_names = {"schwifty.checksum.numerify"}
        self._summaries = None
        raws = self._seed_raws()
        raws += [s_["raw"] for s_ in self.summaries().values()]
        self.alpha = base_alphabet(raws)

    def _seed_raws(self):
        """Character classes of every regex literal / table regex in play, so that the alphabet is final up front."""
        import ast
        from .relang import Regex
        from .values import RegexVal
        pats = set()
        try:
            for spec in self.facts.iban_table().values():
                if isinstance(spec, dict):
                    for v in spec.values():
                        if isinstance(v, RegexVal):
                            pats.add((v.pattern, v.flags))
        except AnalysisError:
            pass
        for mod in self.facts.program.modules.values():
            for n in ast.walk(mod.tree):
                if isinstance(n, ast.Call) and isinstance(n.func, ast.Attribute) and n.func.attr in (
                        "match", "fullmatch", "search", "compile", "sub") and n.args and \
                        isinstance(n.args[0], ast.Constant) and isinstance(n.args[0].value, str):
                    pats.add((n.args[0].value, 0))
        raws = []
        for p, fl in sorted(pats):
            try:
                raws.extend(Regex(p, fl).raws)
            except AnalysisError:
                continue
        return raws

    def _with_refinement(self, fn):
        for _ in range(12):
            try:
                return fn()
            except NeedRefine as e:
                self.alpha = self.alpha.refined(e.raw)
        raise AnalysisError("alphabet refinement does not converge")

    def summaries(self):
        """Per-character string functions that stay opaque on symbolic text (today: numerify)."""
        if getattr(self, "_summaries", None) is None:
            from .vmodel import safe_raw, string_function_summary
            out = {}
            for q in sorted(self.opaque_names):
                if self.facts.program.find(q) is not None:
                    s = string_function_summary(self.facts, q)
                    s["raw"] = safe_raw(s)
                    out[q] = s
            self._summaries = out
        return self._summaries

    def theory(self):
        return StringTheory(self.alpha, clean_universe(self.alpha))

    def explore(self, cls_qual, entry, kwargs=None, intrinsics=None, max_paths=60000, prepare=None):
        """entry: 'init' (validating constructor), 'validate', 'is_valid'.  Returns list of VPath."""
        prog = self.facts.program
        cls = prog.get(cls_qual)
        if not isinstance(cls, Class):
            raise AnalysisError(f"anchor vanished: {cls_qual}")
        kwargs = dict(kwargs or {})

        def run():
            self.runs += 1
            th = self.theory()
            it = self.facts.interp(theory=th, max_paths=max_paths)
            for q, summ in self.summaries().items():
                th.safe_raws[q] = (summ["raw"], summ["empty_exc"] is None)
                exc = next(iter(summ["unsafe"].values()), None) or summ["empty_exc"]
                if exc is not None:
                    it.opaque_summaries[q] = {"exc": exc}
                else:
                    it.opaque_summaries[q] = {"exc": None}
            for q, f in (intrinsics or {}).items():
                it.intrinsics[q] = f
            if prepare:
                prepare(it)

            def thunk():
                obj = Obj(cls, strval=S)
                init = cls.lookup(prog, "__init__")
                if entry == "init":
                    if init is None or init[1] != "method":
                        raise AnalysisError(f"{cls.short} has no __init__")
                    it.call_func(init[2], [obj, Sym("raw_text")], dict(kwargs), None)
                    return obj
                # object built with validation off, then the entry point
                if init is not None and init[1] == "method":
                    it.call_func(init[2], [obj, Sym("raw_text")], {"allow_invalid": True}, None)
                it.event("entry", name=entry)
                if entry == "validate":
                    return it.call(it.getattr(obj, "validate"), [], dict(kwargs))
                if entry == "is_valid":
                    return it.getattr(obj, "is_valid")
                raise AnalysisError(f"unknown entry {entry}")

            try:
                outs = it.explore(thunk)
            except CannotEvaluate as e:
                raise AnalysisError(f"{cls.short}.{entry}: construct outside the evaluator's model: {e}")
            except PathLimit as e:
                raise AnalysisError(f"{cls.short}.{entry}: {e}")
            self.last_interp = it
            new = set()
            for o in outs:
                for e in o.events:
                    if e["kind"] == "unsummarised_opaque":
                        new.add(e["func"])
            if new - self.opaque_names:
                # a per-character string function turned opaque on symbolic text: summarise it and run again
                self.opaque_names |= new
                self._summaries = None
                return None
            return [VPath(o) for o in outs if o.kind != "infeasible"]

        for _ in range(4):
            res = self._with_refinement(run)
            if res is not None:
                return res
        raise AnalysisError("opaque string functions keep appearing")
