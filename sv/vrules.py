"""Rules over the validator decision models (shared by C01, C02, C04, C05, C06)."""
from __future__ import annotations

import itertools

from .algo_eval import is_library_exc
from .relang import DFA
from .srcmodel import AnalysisError
from .vmodel import classify, holds


def valuations(atoms, constraint=None):
    """All boolean assignments to the opaque atoms (dict atom -> bool) allowed by ``constraint``."""
    keys = list(atoms)
    if len(keys) > 8:
        raise AnalysisError(f"{len(keys)} opaque conditions in the validators: too many to enumerate")
    for bits in itertools.product([True, False], repeat=len(keys)):
        v = dict(zip(keys, bits))
        if constraint is None or constraint(v):
            yield v


def consistent(path, valuation):
    return all(valuation.get(a, val) == val for a, val in path.atoms.items())


def semantic(atoms, valuation):
    """kind -> does the predicate hold (only for atoms of a recognised kind; several atoms of one kind: all)."""
    out = {}
    for a, val in valuation.items():
        kind, detail = atoms[a]
        h = holds(kind, detail, val)
        out[kind] = out.get(kind, True) and h
    return out


def accept_language(model, paths, valuation, kinds=("return",), pred=None):
    A = model.alpha
    langs = [p.lang for p in paths if p.kind in kinds and consistent(p, valuation) and (pred is None or pred(p))]
    return DFA.union_many(A, langs) if langs else DFA.empty(A)


def describe_valuation(atoms, valuation):
    sem = semantic(atoms, valuation)
    names = {"mod": "mod-97 remainder check", "recomp": "recomputed check digits equal the given ones",
             "known": "country known to ISO 3166", "nat": "national check", "other": "unrecognised condition"}
    return ", ".join(f"{names.get(k, k)}: {'holds' if v else 'fails'}" for k, v in sorted(sem.items())) or "no opaque condition"
