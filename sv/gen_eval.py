"""Evaluation of BBAN.from_components / IBAN.generate through the abstract evaluator (shared by C08, C09, C13)."""
from __future__ import annotations

from .algo_eval import CLASS_ALPHABET, country_fields, is_library_exc, struct_positions
from .interp import CannotEvaluate, PathLimit
from .srcmodel import AnalysisError
from .values import ClsRef, Obj

GUARDED = ("bank_code", "branch_code", "account_code")


class GenHarness:
    def __init__(self, ctx):
        self.ctx = ctx
        self.prog = ctx.program
        self.facts = ctx.facts
        self.it = self.facts.interp(max_paths=4000)
        self.bban = self.prog.get("schwifty.bban.BBAN")
        self.iban = self.prog.get("schwifty.iban.IBAN")

    def outcomes(self, thunk, what, it=None):
        it = it or self.it
        try:
            return [o for o in it.explore(thunk) if o.kind != "infeasible"]
        except (CannotEvaluate, PathLimit) as e:
            raise AnalysisError(f"cannot evaluate {what}: {e}")

    def one(self, thunk, what):
        outs = self.outcomes(thunk, what)
        if len(outs) != 1:
            raise AnalysisError(f"{what} is not deterministic on concrete input ({len(outs)} paths)")
        o = outs[0]
        return ("ret", o.value) if o.kind == "return" else ("exc", o.value)

    def from_components(self, cc, **values):
        it = self.it
        r = self.one(lambda: it.call(it.getattr(ClsRef(self.bban), "from_components"), [cc], dict(values)), f"BBAN.from_components({cc})")
        if r[0] == "ret" and isinstance(r[1], Obj):
            return ("ret", r[1].strval, r[1])
        return r

    def generate(self, cc, bank_code, account_code, branch_code=""):
        it = self.it
        r = self.one(lambda: it.call(it.getattr(ClsRef(self.iban), "generate"), [cc, bank_code, account_code, branch_code], {}), f"IBAN.generate({cc})")
        if r[0] == "ret" and isinstance(r[1], Obj):
            return ("ret", r[1].strval, r[1])
        return r

    def bban_of(self, cc, text):
        it = self.it
        r = self.one(lambda: it.call(ClsRef(self.bban), [cc, text], {}), f"BBAN({cc!r}, ...)")
        return r

    def components_of(self, obj, names):
        it = self.it
        return self.one(lambda: {n: it.getattr(obj, n) for n in names}, "component accessors")

    def national_ok(self, obj):
        it = self.it
        return self.one(lambda: it.call(it.getattr(obj, "validate_national_checksum"), [], {}), "validate_national_checksum")


def pattern(cls_letters, salt=0):
    """A class-conforming, position-revealing filler: digits 1..9,0 / letters cycling."""
    out = []
    for i, k in enumerate(cls_letters):
        al = CLASS_ALPHABET[k]
        if k == "c":
            al = "123456789ABCDEFGHJKLMNPQRSTUVWXYZ0"
        elif k == "n":
            al = "1234567890"
        out.append(al[(i + salt) % len(al)])
    return "".join(out)
