"""Rules over the IBAN decision model (used by C01, C02, C03, C05, C06)."""
from __future__ import annotations

from .algo_eval import Evaluator, is_library_exc
from .relang import DFA
from .srcmodel import AnalysisError
from .values import SStr, Sym
from .vmodel import S_TERM, call_concrete, call_kind, classify, const_digit_suffix, eval_sym, expansion_call, holds, numerify_arg, residue_modulus, term_segments
from .vrules import accept_language, consistent, describe_valuation, semantic, valuations


def analysed(m, report):
    report.analysed = {"paths": {k: len(v) for k, v in m.paths.items()}, "alphabet_atoms": m.alpha.n,
                       "explorations": m.va.runs, "countries": len(m.struct)}


def where(m, name, cls="schwifty.iban.IBAN"):
    c = m.prog.get(cls)
    f = c.methods.get(name)
    return f.where if f is not None else c.where


def feasible(atoms):
    def ok(v):
        sem = semantic(atoms, v)
        # recomputed digits equal => the number leaves remainder 1 (ISO 7064 identity)
        if sem.get("recomp") is True and sem.get("mod") is False:
            return False
        return True
    return ok


def rule_accept(m, report, prefix, entries):
    """Accepted language == structure language, per country and valuation (both directions)."""
    A = m.alpha
    atoms = m.all_atoms()
    r_up = report.rule(f"{prefix}-incl-upper", floor=100, what="accepted texts are within country + 2 digits + structure classes (no false accept)")
    r_lo = report.rule(f"{prefix}-incl-lower", floor=100, what="every structure-conforming text with valid check digits is accepted (no false reject)")
    r_at = report.rule(f"{prefix}-conditions", floor=2, what="acceptance consults exactly the mod-97 remainder and the recomputed digits (and the national check when asked)")
    kinds_seen = {}
    n_up, n_lo = {}, {}
    for a, (kind, detail) in atoms.items():
        kinds_seen.setdefault(kind, []).append(a)
        r_at.instance({"condition": repr(a)[:200], "kind": kind})
        if kind in ("other", "known"):
            r_at.finding("IBAN.validate:condition", f"acceptance depends on a condition outside ISO 13616: {a!r}", where(m, "validate"))
    for key, nat in entries:
        paths = m.paths[key]
        acc_paths = [p for p in paths if _accepts(key, p)]
        used = set()
        for p in acc_paths:
            for a in p.atoms:
                used.add(atoms[a][0])
        if "recomp" not in used:
            r_at.finding(f"IBAN.{_entry(key)}:recompute", "no accepting path compares the given check digits with the recomputed ones: "
                         "the aliases 00, 01 and 99 (same remainder modulo 97) are accepted", where(m, "_validate_iban_checksum"),
                         witness="check digits dd and dd±97 are both accepted")
        if nat and "nat" not in used:
            r_at.finding(f"IBAN.{_entry(key)}:national", "national validation was requested but no accepting path consults the national check",
                         where(m, "validate"))
        if not nat and "nat" in used:
            r_at.finding(f"IBAN.{_entry(key)}:national", "the national check is consulted although national validation was not requested",
                         where(m, "validate"))
        by_cc = {}
        for p in acc_paths:
            by_cc.setdefault(p.country(), []).append(p)
        for v in valuations(atoms, feasible(atoms)):
            sem = semantic(atoms, v)
            all_hold = all(sem.get(k, True) for k in ("mod", "recomp")) and (sem.get("nat", True) if nat else True)
            for cc in sorted(m.struct):
                want = m.struct[cc] if all_hold else DFA.empty(A)
                ps = [p for p in by_cc.get(cc, []) if consistent(p, v)]
                acc = DFA.union_many(A, [p.lang for p in ps]) if ps else DFA.empty(A)
                inst = {"entry": key, "country": cc, "conditions": describe_valuation(atoms, v)} if cc in ("DE", "MT") else None
                r_up.instance(inst)
                r_lo.instance(None)
                extra = acc.minus(want)
                if not extra.is_empty():
                    n_up[key] = n_up.get(key, 0) + 1
                    if n_up[key] <= 3:
                        r_up.finding(f"IBAN.{_entry(key)}[{cc}]", f"{cc}: text accepted outside the ISO 13616 structure ({describe_valuation(atoms, v)})",
                                     where(m, "validate"), witness=m.witness(extra))
                missing = want.minus(acc)
                if not missing.is_empty():
                    n_lo[key] = n_lo.get(key, 0) + 1
                    if n_lo[key] <= 3:
                        r_lo.finding(f"IBAN.{_entry(key)}[{cc}]", f"{cc}: structure-conforming text rejected ({describe_valuation(atoms, v)})",
                                     where(m, "validate"), witness=m.witness(missing))
            # accepting paths that never looked the country up
            ps = [p for p in by_cc.get(None, []) if consistent(p, v)]
            if ps:
                acc = DFA.union_many(A, [p.lang for p in ps])
                extra = acc.minus(m.struct_all if all_hold else DFA.empty(A))
                if not extra.is_empty():
                    r_up.finding(f"IBAN.{_entry(key)}[no-country]", f"text accepted without a country-table lookup ({describe_valuation(atoms, v)})",
                                 where(m, "validate"), witness=m.witness(extra))
            for cc in sorted(set(by_cc) - set(m.struct) - {None}):
                ps = [p for p in by_cc[cc] if consistent(p, v)]
                if ps:
                    r_up.finding(f"IBAN.{_entry(key)}[{cc}]", f"text with prefix {cc!r} accepted, which is not a well-formed country key", where(m, "validate"))


def expansion_functions(m):
    """Qualified names of the functions whose opaque calls carry the letter expansion in the arithmetic conditions."""
    names = []
    mods, recs = arithmetic_facts(m)
    for a, d in mods:
        c = expansion_call(d["value"])
        if c is not None:
            names.append(c.args[0])
    for a, d in recs:
        c = expansion_call(d["computed"])
        if c is not None:
            names.append(c.args[0])
    return sorted(set(names))


def rule_numerify(m, report, name):
    """P2/P3: the letter expansion is decimal concatenation of per-character values 0-9, A=10 ... Z=35, in text order.
    Checked on every function that carries the expansion in the validators' arithmetic conditions (and on checksum.numerify)."""
    r = report.rule(name, floor=36, what="letter expansion: digits map to 0..9, letters to 10..35, values concatenated as decimal strings in order")
    quals = expansion_functions(m)
    if m.prog.find("schwifty.checksum.numerify") is not None and "schwifty.checksum.numerify" not in quals:
        quals.append("schwifty.checksum.numerify")
    if not quals:
        raise AnalysisError("anchor vanished: no letter-expansion function (checksum.numerify) found")
    ref = {c: i for i, c in enumerate("0123456789ABCDEFGHIJKLMNOPQRSTUVWXYZ")}
    for q in quals:
        f = m.prog.get(q)
        short = f.short
        kind = call_kind(q)
        mod = residue_modulus(q) if kind == "int" else None
        if mod:
            r.instance({"function": short, "returns": f"the remainder modulo {mod} of the expansion, not the number"})

        def value(o):
            if o.kind != "return":
                return f"raises {o.value.name}"
            v = o.value
            if kind == "str" and isinstance(v, str) and v.isdigit() and v.isascii():
                return int(v)
            return v

        for c, v in ref.items():
            got = value(call_concrete(m.facts, q, c))
            r.instance({"function": short, "char": c, "value": got} if c in "09AZ" else None)
            if got != (v % mod if mod else v) or isinstance(got, bool):
                r.finding(f"numerify[{c}]", f"{short}({c!r}) is {got!r}, ISO 13616 assigns {v}", f.where, witness=c)
        probes = ["10", "A0", "0A", "AZ", "ZA", "1A2B", "Z9Z", "00A", "B1C2D3", "9Z8Y7X"]
        # every length an IBAN can have, all letters (two digits each: the longest expansions) and mixed - a table or buffer sized for
        # "typical" texts shows here
        probes += ["Z" * k for k in range(3, 35)] + [("9Z8Y7X6W5V" * 4)[:k] for k in (15, 22, 28, 31, 34)] + [("A1" * 17)[:k] for k in (33, 34)]
        for s_ in probes:
            want = int("".join(str(ref[c]) for c in s_))
            if mod:
                want %= mod
            got = value(call_concrete(m.facts, q, s_))
            r.instance(None)
            if got != want:
                r.finding("numerify:concatenation", f"{short}({s_!r}) is {got!r}; decimal concatenation in text order gives {want}" + (f" (modulo {mod})" if mod else "")
                          + (f" — the text expands to {len(''.join(str(ref[c]) for c in s_))} digits" if len(s_) > 6 else ""), f.where, witness=s_)
                break


def _accepts(key, p):
    if key == "is_valid":
        return p.kind == "return" and p.value is True
    return p.kind == "return"


def _entry(key):
    return {"init": "__init__", "init_bban": "__init__", "init_none": "__init__", "validate": "validate", "validate_bban": "validate", "is_valid": "is_valid"}.get(key, key)


def rule_ascii34(m, report, name):
    A = m.alpha
    r = report.rule(name, floor=1, what="every accepted compact form is ASCII upper-case letters / digits only and at most 34 long")
    atoms = m.all_atoms()
    for key in ("init", "is_valid"):
        acc = DFA.union_many(A, [p.lang for p in m.paths[key] if _accepts(key, p)] or [DFA.empty(A)])
        r.instance({"entry": key, "accepted lengths": sorted(acc.lengths(64)[0])})
        bad = acc.minus(m.ascii_alnum.intersect(m.max34))
        if not bad.is_empty():
            r.finding(f"IBAN.{_entry(key)}:ascii34", "an accepted text contains a character outside [A-Z0-9] or is longer than 34", where(m, "validate"),
                      witness=m.witness(bad))


def arithmetic_facts(m):
    atoms = m.all_atoms()
    mods = [(a, d) for a, (k, d) in atoms.items() if k == "mod"]
    recs = [(a, d) for a, (k, d) in atoms.items() if k == "recomp"]
    return mods, recs


def rule_arith(m, report, name):
    """The two arithmetic conditions are the ISO 7064 MOD 97-10 ones."""
    r = report.rule(name, floor=2, what="modulus 97, residue 1, rearrangement BBAN + first four; recomputed digits = 98 - (100 N mod 97), two digits")
    mods, recs = arithmetic_facts(m)
    w = where(m, "_validate_iban_checksum")
    for a, d in mods:
        r.instance({"condition": "remainder", "modulus": d["modulus"], "residue": d["residue"]})
        if d["modulus"] != 97 or d["residue"] != 1:
            r.finding("IBAN.numeric:modulus", f"the remainder check is `N mod {d['modulus']} == {d['residue']}`, ISO 7064 MOD 97-10 requires N mod 97 == 1", w)
        arg = numerify_arg(d["value"])
        segs = term_segments(arg.term) if isinstance(arg, SStr) else None
        if segs != [(4, None), (0, 4)]:
            r.finding("IBAN.numeric:rearrangement", f"the number is built from text segments {segs}, ISO 13616 moves the first four characters to the end "
                      "([4:] + [0:4])", where(m, "numeric"))
        if not _is_the_number(d["value"]):
            r.finding("IBAN.numeric:expression", f"the remainder is taken of {d['value']!r}, not of the letter-expanded number itself", where(m, "numeric"))
    for a, d in recs:
        given = d["given"]
        r.instance({"condition": "recomputed digits", "given": repr(given)})
        if not (isinstance(given, SStr) and given.term == ("slice", S_TERM, 2, 4)):
            r.finding("IBAN.checksum_digits", f"the recomputed digits are compared with {given!r}, not with characters 3-4", w)
        arg = numerify_arg(d["computed"])
        segs = term_segments(arg.term) if isinstance(arg, SStr) else None
        if segs != [(4, None), (0, 2)]:
            r.finding("IBAN.compute:input", f"check digits are computed over text segments {segs}, ISO 13616 uses BBAN + country code ([4:] + [0:2]) followed by 00", w)
        bad = None
        outs = set()
        for n in list(range(0, 9800)) + [10 ** 30 + 7, 3 * 10 ** 33 + 96]:
            try:
                got = eval_sym(d["computed"], n)
            except AnalysisError:
                raise
            want = f"{98 - (n * 100) % 97:02d}"
            outs.add(got)
            if got != want and bad is None:
                bad = (n, got, want)
        if bad:
            r.finding("IBAN.compute:formula", f"for N = {bad[0]} the code computes check digits {bad[1]!r}, ISO 7064 MOD 97-10 gives {bad[2]!r}",
                      where(m, "compute", "schwifty.checksum.ISO7064_mod97_10"), witness=f"N={bad[0]}")
        rng = sorted(outs)
        r.instance({"computed digits range": [rng[0], rng[-1]], "distinct": len(rng)})
        if not all(len(x) == 2 and x.isdigit() and "02" <= x <= "98" for x in outs):
            r.finding("IBAN.compute:range", f"computed check digits are not always two digits in 02..98 (e.g. {[x for x in outs if not (len(x) == 2 and x.isdigit() and '02' <= x <= '98')][:3]})",
                      where(m, "compute", "schwifty.checksum.ISO7064_mod97_10"))
    if not mods and not recs:
        r.finding("IBAN.validate:arithmetic", "no path consults a mod-97 condition", w)


def _is_the_number(v):
    """The term is the letter-expanded number itself (the expansion call, possibly converted from its digit string)."""
    if expansion_call(v) is None:
        return False
    try:
        c = expansion_call(v)
        mod = residue_modulus(c.args[0]) if call_kind(c.args[0]) == "int" else None
        # a string function that hands out the remainder stands for N mod M: the term must be exactly that
        return all(eval_sym(v, n) == (n % mod if mod else n) and not isinstance(eval_sym(v, n), bool) for n in (0, 1, 96, 97, 98, 10 ** 30 + 7))
    except AnalysisError:
        return False


# ------------------------------------------------------------------------------------------------ C02

def rule_from_bban(m, report, name):
    """from_bban assembles country + computed digits + BBAN with the same compute the validator re-runs."""
    from .interp import NullTheory
    from .values import ClsRef, Obj
    r = report.rule(name, floor=3, what="from_bban: text = country + digits + bban; digits computed over bban + country by the validator's formula; validation on by default")
    prog = m.prog
    iban = prog.get("schwifty.iban.IBAN")
    f = iban.methods.get("from_bban")
    if f is None:
        raise AnalysisError("anchor vanished: IBAN.from_bban")
    it = m.facts.interp()
    for q, summ in m.va.summaries().items():
        exc = next(iter(summ["unsafe"].values()), None) or summ["empty_exc"]
        it.opaque_summaries[q] = {"exc": exc}
    cc = SStr(("S", "cc"))
    bban = SStr(("S", "bban"))
    captured = []

    def hook(it_, args, kwargs, node):
        captured.append((list(args), dict(kwargs)))
        return Obj(iban)

    it.intrinsics["new:" + iban.qualname] = hook
    try:
        outs = it.explore(lambda: it.call(it.getattr(ClsRef(iban), "from_bban"), [cc, bban], {}), max_paths=200)
    except Exception as e:
        raise AnalysisError(f"cannot evaluate IBAN.from_bban symbolically: {e}")
    if not captured:
        r.instance({"constructor calls": 0})
        r.finding("IBAN.from_bban:constructor", "from_bban never reaches the IBAN constructor", f.where)
        return
    # the same for every country code of the table as a concrete text (a per-country shortcut - digits taken from the table, a special case
    # for one country - is keyed on the country code and invisible to the symbolic code): the digits must be the computed ones there too
    n_sym = len(captured)
    table = m.facts.iban_table() if hasattr(m.facts, "iban_table") else {}
    special = {}
    for c2 in sorted(table):
        before = len(captured)
        try:
            it.explore(lambda: it.call(it.getattr(ClsRef(iban), "from_bban"), [c2, bban], {}), max_paths=200)
        except Exception as e:
            raise AnalysisError(f"cannot evaluate IBAN.from_bban for {c2}: {e}")
        for args, kwargs in captured[before:]:
            text = args[0] if args else None
            parts = list(text.args[0]) if isinstance(text, Sym) and text.kind == "concat" else None
            # adjacent constant pieces may have been folded: country code + constant digits
            ok = parts is not None and len(parts) == 3 and parts[0] == c2 and parts[2] == bban and isinstance(parts[1], Sym)
            if ok:
                arg = numerify_arg(parts[1])
                ok = isinstance(arg, SStr) and eval_sym(parts[1], 12345) == f"{98 - (12345 * 100) % 97:02d}"
            if not ok:
                special.setdefault(repr(text)[:160], []).append(c2)
    del captured[n_sym:]
    r.instance({"countries evaluated with a concrete country code": len(table), "with an assembly other than country + computed digits + BBAN": sum(len(v) for v in special.values())})
    for shown, ccs in sorted(special.items()):
        r.finding(f"IBAN.from_bban:special-case[{ccs[0]}]", f"for the country code {ccs[0]!r} from_bban assembles {shown}: not country code + check digits computed over BBAN + country code + BBAN "
                  f"({len(ccs)} countr{'y' if len(ccs) == 1 else 'ies'}: {', '.join(ccs[:10])}); a BBAN whose own digits differ gets check digits the validator rejects, or an invalid IBAN",
                  f.where, witness={"country": ccs[0]})
    seen_texts = set()
    for args, kwargs in captured:
        text = args[0] if args else None
        if (repr(text), repr(kwargs.get("allow_invalid", False))) in seen_texts:
            continue     # every path that reaches the constructor is examined once per distinct assembled text
        seen_texts.add((repr(text), repr(kwargs.get("allow_invalid", False))))
        parts = None
        if isinstance(text, Sym) and text.kind == "concat":
            parts = list(text.args[0])
        r.instance({"assembled": repr(text)[:200]})
        ok_shape = parts is not None and len(parts) == 3 and parts[0] == cc and parts[2] == bban and isinstance(parts[1], Sym)
        if not ok_shape:
            r.finding("IBAN.from_bban:assembly", f"the IBAN text is assembled as {text!r}, expected country code + check digits + BBAN "
                      "(the order the accessors slice it)", f.where)
            continue
        digits = parts[1]
        arg = numerify_arg(digits)
        r.instance({"digits over": repr(arg)})
        term = arg.term if isinstance(arg, SStr) else None
        if term and const_digit_suffix(arg) == "00" and len(term) == 4:
            term = term[:-1]     # "00" appended to the text instead of multiplying the number by 100 (eval_sym accounts for it)
        if term != ("concat", ("S", "bban"), ("S", "cc")):
            r.finding("IBAN.from_bban:input", f"check digits are computed over {arg!r}; the validator recomputes them over BBAN + country code", f.where)
        bad = None
        for n in list(range(0, 9800)) + [10 ** 30 + 7]:
            got = eval_sym(digits, n)
            want = f"{98 - (n * 100) % 97:02d}"
            if got != want:
                bad = (n, got, want)
                break
        r.instance({"formula": "98 - (100 N mod 97), two digits", "agrees": bad is None})
        if bad:
            r.finding("IBAN.from_bban:formula", f"for N = {bad[0]} from_bban computes {bad[1]!r}, ISO 7064 MOD 97-10 gives {bad[2]!r}", f.where)
        ai = kwargs.get("allow_invalid", False)
        if ai is not False and not (isinstance(ai, tuple)):
            r.finding("IBAN.from_bban:validation", f"from_bban builds the IBAN with allow_invalid={ai!r} when the caller did not ask for it", f.where)


# ------------------------------------------------------------------------------------------------ C03

def rule_lemma(m, report, name):
    """The detection lemma evaluated on the constants extracted from the tree."""
    r = report.rule(name, floor=4, what="mod-M detection lemma on extracted constants: M prime, M > max same-kind delta, ord_M(10) > longest number, 10^w-1 != 0")
    mods, recs = arithmetic_facts(m)
    M = None
    for a, d in mods:
        M = d["modulus"]
    if M is None:
        # recompute-only validators: the modulus is the period of the recomputed digits
        for a, d in recs:
            base = eval_sym(d["computed"], 0)
            for k in range(2, 2000):
                if all(eval_sym(d["computed"], n) == eval_sym(d["computed"], n + k) for n in range(0, 50)):
                    M = k
                    break
    if M is None:
        r.instance({"modulus": None})
        r.finding("IBAN.validate:modulus", "no modulus could be extracted from the validators", where(m, "_validate_iban_checksum"))
        return
    maxlen = max((s.get("iban_length", 0) for s in m.ctx.registry.countries.values() if isinstance(s.get("iban_length"), int)), default=34)
    numlen = 2 * maxlen
    prime = M > 1 and all(M % k for k in range(2, int(M ** 0.5) + 1))
    r.instance({"modulus": M, "prime": prime})
    if not prime:
        r.finding("IBAN.validate:modulus-prime", f"modulus {M} is not prime: some single-character errors leave the remainder unchanged", where(m, "_validate_iban_checksum"))
        return
    # same-kind value differences: digits 0..9, letters 10..35
    r.instance({"max same-kind delta": 25, "modulus exceeds it": M > 25})
    if M <= 25:
        r.finding("IBAN.validate:modulus-delta", f"modulus {M} does not exceed the largest letter difference 25", where(m, "_validate_iban_checksum"))
    if 10 % M == 0:
        r.finding("IBAN.validate:modulus-ten", f"modulus {M} divides 10", where(m, "_validate_iban_checksum"))
        return
    order = 1
    x = 10 % M
    while x != 1 and order <= 10 * M:
        x = (x * 10) % M
        order += 1
    r.instance({"multiplicative order of 10": order, "longest expanded number": numlen})
    if order <= numlen:
        r.finding("IBAN.validate:order", f"10 has order {order} modulo {M}, not above the longest expanded number ({numlen} digits): "
                  "two positions can carry the same weight, a transposition across them goes unnoticed", where(m, "_validate_iban_checksum"))
    for w in (1, 2):
        r.instance({"adjacent transposition width": w, "10^w-1 mod M": (10 ** w - 1) % M})
        if (10 ** w - 1) % M == 0:
            r.finding(f"IBAN.validate:transposition{w}", f"10^{w} - 1 is divisible by {M}: adjacent transpositions are not detected", where(m, "_validate_iban_checksum"))


def rule_p1(m, report, name):
    """Every accepting path passes one of the arithmetic conditions with the polarity 'holds'."""
    r = report.rule(name, floor=100, what="every accepting path is guarded by the mod-97 condition (remainder or recomputed digits)")
    atoms = m.all_atoms()
    for key in ("init", "is_valid"):
        for p in m.paths[key]:
            if not _accepts(key, p):
                continue
            sem = {}
            for a, val in p.atoms.items():
                k, d = atoms[a]
                sem[k] = holds(k, d, val)
            r.instance({"entry": key, "country": p.country(), "guards": sem} if p.country() in ("DE", "MT") else None)
            if not (sem.get("mod") or sem.get("recomp")):
                r.finding(f"IBAN.{_entry(key)}:unguarded[{p.country()}]", f"an accepting path for {p.country()} passes no mod-97 condition", where(m, "validate"),
                          witness=m.witness(p.lang))


# ------------------------------------------------------------------------------------------------ C05

def rule_escape(m, report, name, cls_label):
    r = report.rule(name, floor=50 if cls_label == "IBAN" else 4, what="no path of the validating entry points ends in a non-library exception")
    seen = set()
    for key, paths in m.paths.items():
        for p in paths:
            r.instance({"entry": key, "outcome": p.kind, "exception": p.exc_name} if len(r.samples) < 4 else None)
            if p.kind == "raise" and not is_library_exc(m.prog, p.value):
                e = p.value
                c = f"{cls_label}.{_entry(key) if cls_label == 'IBAN' else key}:{e.name}@{getattr(e, 'func', None) or e.where}"
                if c in seen:
                    continue
                seen.add(c)
                r.finding(c, f"{e.name} raised at {e.where} ({e.args[0] if e.args else ''}) escapes {cls_label}.{key} — not a library exception",
                          e.where, witness=m.witness(p.lang))


def rule_isvalid(m, report, name, cls_label):
    r = report.rule(name, floor=1, what="is_valid returns a bool on every path and never raises")
    for p in m.paths["is_valid"]:
        r.instance({"outcome": p.kind, "value": repr(p.value)[:40]} if len(r.samples) < 4 else None)
        if p.kind == "raise":
            e = p.value
            r.finding(f"{cls_label}.is_valid:raises:{e.name}", f"is_valid raises {e.name} (from {e.where}) instead of returning False", e.where,
                      witness=m.witness(p.lang))
        elif p.value is not True and p.value is not False:
            r.finding(f"{cls_label}.is_valid:value", f"is_valid returns {p.value!r}, not a bool", None, witness=m.witness(p.lang))


def rule_funnel(m, report, name, cls_label, groups):
    """Construction succeeds exactly when validate() returns True exactly when is_valid is True."""
    A = m.alpha
    r = report.rule(name, floor=2, what="constructor, validate() and is_valid accept the same texts under every valuation of the opaque conditions")
    atoms = m.all_atoms()
    for group in groups:
        for v in valuations(atoms, feasible(atoms)):
            langs = {}
            for key in group:
                ps = [p for p in m.paths[key] if consistent(p, v) and ((p.kind == "return" and p.value is True) if key == "is_valid"
                                                                    else (p.kind == "return" and (key.startswith("init") or p.value is True)))]
                langs[key] = DFA.union_many(A, [p.lang for p in ps]) if ps else DFA.empty(A)
            r.instance({"entries": list(group), "conditions": describe_valuation(atoms, v)})
            base = group[0]
            for key in group[1:]:
                d1 = langs[base].minus(langs[key])
                d2 = langs[key].minus(langs[base])
                for d, (x, y) in ((d1, (base, key)), (d2, (key, base))):
                    if not d.is_empty():
                        r.finding(f"{cls_label}:{x}!={y}", f"a text accepted through {x} is not accepted through {y} ({describe_valuation(atoms, v)})",
                                  None, witness=m.witness(d))
            for key in group:
                if not key.startswith("init") and key != "is_valid":
                    bad = [p for p in m.paths[key] if p.kind == "return" and p.value is not True and consistent(p, v)]
                    if bad:
                        r.finding(f"{cls_label}.{key}:return", f"validate() returns {bad[0].value!r}; it must return True or raise", None,
                                  witness=m.witness(bad[0].lang))


def rule_class_iban(m, report, name):
    A = m.alpha
    r = report.rule(name, floor=100, what="the class of every validation error names a defect present in the text")
    atoms = m.all_atoms()
    seen = set()
    for key, paths in m.paths.items():
        for p in paths:
            if p.kind != "raise" or not is_library_exc(m.prog, p.value):
                continue
            e = p.value
            r.instance({"entry": key, "raises": e.name, "country": p.country()} if len(r.samples) < 5 else None)
            sem = {}
            for a, val in p.atoms.items():
                k, d = atoms[a]
                sem[k] = sem.get(k, True) and holds(k, d, val)
            bad = None
            if e.name == "InvalidCountryCode":
                bad = p.lang.intersect(m.known_prefix)
                why = "the text starts with a country code of the table"
            elif e.name == "InvalidLength":
                bad = p.lang.intersect(m.rightlen_all)
                why = "the text has exactly the length of its country"
            elif e.name == "InvalidStructure":
                bad = p.lang.intersect(m.struct_all)
                why = "the text conforms to its country's structure"
            elif e.name == "InvalidChecksumDigits":
                if not (sem.get("mod") is False or sem.get("recomp") is False):
                    bad = p.lang
                    why = "no mod-97 condition failed on this path"
            elif e.name == "InvalidBBANChecksum":
                if sem.get("nat") is not False:
                    bad = p.lang
                    why = "the national check did not fail on this path"
            else:
                bad = p.lang
                why = f"{e.name} is not one of the documented validation errors"
            if bad is not None and not bad.is_empty():
                c = f"IBAN.{_entry(key)}:{e.name}@{getattr(e, 'func', None)}"
                if c not in seen:
                    seen.add(c)
                    r.finding(c, f"{e.name} is raised at {e.where} although {why}", e.where, witness=m.witness(bad))
