"""Premise shared by the per-call analyses: what an entry point of a property reaches keeps no memory.

The rules of C01 ... C13 evaluate one call at a time and generalise to every call.  That step is sound only if the functions the call
reaches are free of memoisation and of writes to module-level / default-argument state: a cache keyed on a value object (whose equality
is its text alone) hands the verdict, digits or fields of one call to a later call with another country, flag or bank.  The premise is
decided on the call graph of the effects engine, restricted to what the property's own entry points reach - a cache elsewhere in the
package is C15's business, not this property's."""
from __future__ import annotations

from ..effects import Effects
from ..srcmodel import AnalysisError, Func, dotted

ENTRIES = {
    "iban-validate": ["schwifty.common.Base.__new__", "schwifty.iban.IBAN.__init__", "schwifty.iban.IBAN.validate", "schwifty.iban.IBAN.is_valid"],
    "iban-build": ["schwifty.iban.IBAN.from_bban", "schwifty.iban.IBAN.generate"],
    "bic-validate": ["schwifty.common.Base.__new__", "schwifty.bic.BIC.__init__", "schwifty.bic.BIC.validate", "schwifty.bic.BIC.is_valid"],
    "national": ["schwifty.bban.BBAN.validate_national_checksum", "schwifty.bban.compute_national_checksum"],
    "generate": ["schwifty.bban.BBAN.from_components", "schwifty.iban.IBAN.generate"],
    "random": ["schwifty.bban.BBAN.random", "schwifty.iban.IBAN.random"],
    "lookup": ["schwifty.bic.BIC.from_bank_code", "schwifty.bic.BIC.candidates_from_bank_code", "schwifty.bban.BBAN.bank", "schwifty.iban.IBAN.bic"],
}


def _funcs(prog, eff, names):
    out = []
    for q in names:
        f = prog.find(q)
        if isinstance(f, Func):
            out.append(f)
            continue
        # properties and methods are found through the effects engine's function list
        hit = [g for g in eff.funcs if g.qualname == q]
        if not hit:
            raise AnalysisError(f"anchor vanished: {q}")
        out.extend(hit)
    return out


def accessor_entries(prog, eff, classes, names=None):
    """the properties of the value classes (component accessors, lookups); `names` restricts them"""
    out = []
    for q in classes:
        c = prog.get(q)
        for k in c.mro(prog):
            for g in eff.funcs:
                if g.cls is k and g.kind == "property" and (names is None or g.name in names):
                    out.append(g)
    return out


def _national_module(f):
    """a country module of the checksum package: its algorithms run only under national validation"""
    name = f.module.name
    return name.startswith("schwifty.checksum.") and name != "schwifty.checksum"


def stateless_premise(ctx, report, rule_name, groups, extra=None, floor=3, stop=(), without_national=False, outside=()):
    from .c14 import IMPORT_ONLY, get_is_guarded, lazy_facts, slow_path_skip
    from .c15 import CACHE_DECORATORS, _harmless_cache
    from ..intrinsics import const_str
    prog = ctx.program
    eff = getattr(ctx, "_effects_cache", None)
    if eff is None:
        eff = Effects(prog)
        ctx._effects_cache = eff
    roots = []
    for g in groups:
        roots += _funcs(prog, eff, ENTRIES[g])
    if extra:
        roots += extra(prog, eff)
    loaded, sites = lazy_facts(ctx, eff)
    guarded = get_is_guarded(ctx)
    runtime_all = eff.reachable(eff.runtime_roots())
    lazy_ok = guarded and all(const_str(prog, f.module, n.args[0]) in loaded for f, n in sites
                               if id(f) in runtime_all and f.qualname not in IMPORT_ONLY and n.args)
    skip = slow_path_skip(ctx, eff, lazy_ok)
    reach = eff.reachable(roots, skip_edge=lambda f, h: skip(f, h) or h.qualname in stop)
    r = report.rule(rule_name, floor=floor, what="premise of the per-call analysis: nothing this property's entry points reach is memoised or writes module-level / "
                    "default-argument state (a cache keyed on a value object is keyed on its text alone)")
    r.instance({"entry points": sorted({f.short for f in roots})[:12], "functions reached": len(reach)})
    for fid, (f, via) in sorted(reach.items(), key=lambda kv: kv[1][0].qualname):
        if (without_national and _national_module(f)) or f.module.name in outside:
            # the call graph resolves a call on a receiver of unknown class (`algo.validate(...)`) by name to every class with such a method;
            # `outside` names the modules this property's entry points do not run (confirmed by reading), `without_national` the country
            # modules when the national check has been cut off (it is C06's premise)
            continue
        r.instance(None)
        for d in f.decorators:
            dn = dotted(d) or dotted(getattr(d, "func", None)) or ""
            if dn.split(".")[-1] in CACHE_DECORATORS:
                if dn.split(".")[-1] in ("lru_cache", "cache") and _harmless_cache(eff, f):
                    continue
                r.finding(f"{f.short}:@{dn}", f"{f.short} is memoised with @{dn} and is reached from this property's entry points ({eff.path_to(reach, f)}): the cache key of an "
                          "IBAN / BIC / BBAN argument is its text alone, so a result computed for one country, flag or bank is handed to a later call that differs only "
                          "in those - the outcome of a call then depends on the calls before it", f.where)
        for e in eff.direct_effects(f):
            if e.kind == "tainted-mutation":
                r.finding(f"{f.short}:{e.target}", f"{f.short} modifies the bundled registry data through {e.target!r} ({e.detail}) and is reached from this property's entry points "
                          f"({eff.path_to(reach, f)}): the registry every later call is answered from is no longer the bundled one", e.where)
            if e.kind in ("global-store", "module-mutation", "default-mutation"):
                r.finding(f"{f.short}:{e.target}", f"{f.short} keeps state in {e.target!r} ({e.kind}, {e.detail}) and is reached from this property's entry points "
                          f"({eff.path_to(reach, f)}): a later call, or a concurrent one, is answered from what an earlier call left there", e.where)
    return r
