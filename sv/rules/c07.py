"""C07 — German account numbers are judged by the Bundesbank method of their bank."""
from __future__ import annotations

import ast

from ..interp import CannotEvaluate, PathLimit
from ..srcmodel import AnalysisError, Class
from ..tables import bundesbank as BB
from ..values import AStr, DIGITS, Obj, VSet, is_abstract
from ..algo_eval import is_library_exc

ACCT = AStr([DIGITS] * 10)


def _attr(it, obj, name, what):
    try:
        return it.getattr(obj, name)
    except CannotEvaluate as e:
        raise AnalysisError(f"{obj.cls.short}.{name}: cannot evaluate ({e})")


def _concrete_call(facts, cls, method, args):
    """Evaluate instance.method(*args) on concrete arguments; returns ('ret', v) | ('exc', ExcVal)."""
    it = facts.interp()

    def thunk():
        obj = it.instantiate(cls, [], {}, None)
        return it.call(it.getattr(obj, method), list(args), {})

    try:
        outs = it.explore(thunk, max_paths=50)
    except (CannotEvaluate, PathLimit) as e:
        raise AnalysisError(f"cannot evaluate {cls.short}.{method}{tuple(args)!r}: {e}")
    if len(outs) != 1:
        raise AnalysisError(f"{cls.short}.{method} is not deterministic on concrete input {args!r}")
    o = outs[0]
    return ("ret", o.value) if o.kind == "return" else ("exc", o.value)


def template_params(facts, cls):
    it = facts.interp()
    obj = it.instantiate(cls, [], {}, None)
    p = {}
    p["mod"] = _attr(it, obj, "modulus", "modulus")
    p["minuend"] = _attr(it, obj, "minuend", "minuend")
    pos = _attr(it, obj, "positions", "positions")
    if not isinstance(pos, Obj) or not all(k in pos.attrs for k in ("start", "end", "check_digit")):
        raise AnalysisError(f"{cls.short}.positions is not a Positions(start, end, check_digit) record")
    p["start"], p["end"], p["check"] = pos.attrs["start"], pos.attrs["end"], pos.attrs["check_digit"]
    p["rtl"] = _attr(it, obj, "reverse", "reverse")
    p["weights"] = _attr(it, obj, "weights", "weights")
    for k in ("mod", "start", "end", "check"):
        if not isinstance(p[k], int) or isinstance(p[k], bool):
            raise AnalysisError(f"{cls.short}: parameter {k} is not an integer constant ({p[k]!r})")
    if not isinstance(p["weights"], list) or not all(isinstance(w, int) for w in p["weights"]) or not p["weights"]:
        raise AnalysisError(f"{cls.short}.weights is not a non-empty list of integers")
    return p


def remainder_map(facts, cls, where):
    """remainder (value returned by the class's compute_remainder) -> set of results of compute().

    Every compute_remainder in the class's MRO is wrapped: its result is case-split and logged, so each path of
    compute() has one concrete remainder whatever the template does with it afterwards (attribute or local)."""
    from ..values import VSet, Interval
    it = facts.interp(max_paths=5000)
    it.force_attr_split = True
    prog = facts.program
    wrapped = 0
    for k in cls.mro(prog):
        f = k.methods.get("compute_remainder")
        if f is None:
            continue
        wrapped += 1

        def make(orig):
            def intr(it_, args, kwargs, node):
                if it_._liftable(orig, args, kwargs):
                    v = it_._lifted_call(orig, args, kwargs, node, None)
                else:
                    v = it_._inline(orig, args, kwargs, node, None)
                if isinstance(v, VSet) and all(isinstance(x, int) for x in v.vals) and 1 < len(v.vals) <= 128:
                    vals = sorted(v.vals)
                    v = vals[it_.choose(len(vals), "remainder split")]
                elif isinstance(v, Interval) and v.hi - v.lo < 128:
                    v = v.lo + it_.choose(v.hi - v.lo + 1, "remainder split")
                it_.event("remainder", value=v)
                return v
            return intr

        it.intrinsics[f.qualname] = make(f)
    if not wrapped:
        raise AnalysisError(f"{cls.short}: no compute_remainder hook in the MRO (template changed shape)")

    def thunk():
        obj = it.instantiate(cls, [], {}, None)
        return it.call(it.getattr(obj, "compute"), [[ACCT]], {})

    try:
        outs = it.explore(thunk)
    except (CannotEvaluate, PathLimit) as e:
        raise AnalysisError(f"cannot evaluate {cls.short}.compute: {e}")
    mapping = {}
    other = []
    for o in outs:
        if o.kind == "infeasible":
            continue
        r = None
        for e in o.events:
            if e["kind"] == "remainder":
                r = e["value"]
        res = o.value
        if r is None or is_abstract(r):
            other.append(o)
            continue
        if o.kind == "raise":
            mapping.setdefault(r, set()).add(("raise", o.value))
        else:
            vals = list(res.vals) if isinstance(res, VSet) else [res]
            for v in vals:
                mapping.setdefault(r, set()).add(("ret", v))
    return mapping, other


def run(ctx, report):
    from .premises import accessor_entries, stateless_premise
    stateless_premise(ctx, report, 'R07-P1-stateless', ['national'], extra=None, stop=(), outside=("schwifty.iban", "schwifty.bic"))
    prog = ctx.program
    facts = ctx.facts
    reg = ctx.registry
    report.explanation = (
        "Every class registered for DE is resolved through its MRO and its effective parameters and hook tables "
        "(summand per digit x weight, remainder per sum, result per remainder) are compared with the Bundesbank "
        "reference table of sv/tables/bundesbank.py; every value that can reach a comparison with an account digit "
        "is shown to be a single decimal digit; dispatch keys of writer (register) and reader (bank entry field) agree."
    )
    regs = [r for r in facts.registrations() if r.prefix == "DE"]
    by_name = {}
    r_disp = report.rule("R07-dispatch", floor=78, what="method names unique; a bank entry naming method m is judged by the class registered as DE:m, unlisted / unimplemented ones are accepted (by evaluation); no DE:default")
    for r in regs:
        r_disp.instance({"key": r.key, "class": r.cls.qualname})
        if r.name in by_name:
            r_disp.finding(f"DE:{r.name}", f"method name {r.name!r} is registered twice ({by_name[r.name].cls.short} and {r.cls.short}); "
                           "the later class silently replaces the earlier one", r.where)
        by_name[r.name] = r
        digits = "".join(c for c in r.cls.name if c.isdigit())
        if digits and digits != r.name:
            r_disp.finding(f"DE:{r.name}", f"class {r.cls.short} registers as method {r.name!r}", r.where)
    if "default" in by_name:
        r_disp.finding("DE:default", "a DE:default algorithm would be applied to every German bank without a method", by_name["default"].where)
    # reader side: field name and key format in bban.validate_national_checksum
    _check_reader(ctx, report, r_disp, by_name)
    # data side: every method named by the German bank entries
    used = {}
    for e in reg.banks:
        if e.get("country_code") == "DE" and "checksum_algo" in e:
            used[e["checksum_algo"]] = used.get(e["checksum_algo"], 0) + 1
    report.analysed = {"registered_DE_methods": sorted(by_name), "methods_used_by_bank_entries": len(used),
                       "bank_entries_with_method": sum(used.values())}
    for m in sorted(by_name):
        if m not in BB.ALL_METHODS:
            r_disp.finding(f"DE:{m}", f"method {m!r} is registered but is not one of the {len(BB.ALL_METHODS)} reference methods", by_name[m].where)
    for m in BB.ALL_METHODS:
        if m not in by_name:
            r_disp.finding(f"DE:{m}", f"reference method {m!r} is not registered (accounts of its banks would be accepted unchecked)", None)

    r_tab = report.rule("R07-table", floor=37, what="effective parameters and hook tables equal the Bundesbank reference")
    r_dig = report.rule("R07-digit", floor=37, what="every computed check value is one decimal digit (or a library exception)")
    r_pure = report.rule("R07-pure", floor=39, what="German methods accept exactly the account code")

    todo = []
    for m, r in sorted(by_name.items()):
        it = facts.interp()
        obj = it.instantiate(r.cls, [], {}, None)
        acc = it.getattr(obj, "accepts")
        r_pure.instance({"method": m, "accepts": [str(a) for a in acc] if isinstance(acc, list) else repr(acc)})
        if not (isinstance(acc, list) and [str(a) for a in acc] == ["account_code"]):
            r_pure.finding(f"DE:{m}.accepts", f"method {m} accepts {acc!r}, expected exactly [account_code]", r.where)
        if m in BB.METHODS:
            todo.append((m, r.cls, BB.METHODS[m], r.where))
    r91 = by_name.get("91")
    if r91 is not None:
        for vname, ref in BB.VARIANTS_91.items():
            vcls = r91.cls.nested.get(vname)
            if vcls is None:
                r_tab.finding(f"DE:91.{vname}", f"variant class {vname} of method 91 not found", r91.where)
                continue
            todo.append((f"91.{vname}", vcls, ref, vcls.where))
        _check_91(ctx, report, r_tab, r91)

    from ..par import replay, run_recorded
    for recs, _ in run_recorded(["R07-table", "R07-digit"], lambda t, rules: _check_method(ctx, report, rules["R07-table"], rules["R07-digit"], *t), todo):
        replay({"R07-table": r_tab, "R07-digit": r_dig}, recs)

    if "09" in by_name:
        k = by_name["09"].cls
        res = _concrete_call(facts, k, "validate", [["0123456789"], ""])
        r_tab.instance({"method": "09", "always valid": res[1] is True})
        if res != ("ret", True):
            r_tab.finding("DE:09.validate", "method 09 (no check digit calculation) must accept every account", by_name["09"].where)

    # ------------------------------------------------------------------ R07-reference: verdicts on a probe family
    from ..tables import bundesbank_ref as REF
    from ..algo_eval import Evaluator
    r_ref = report.rule("R07-reference", floor=39, what="validate() agrees with the reference verdict on a probe family covering every position x digit, the special-rule boundaries and seeded fills")
    ev = Evaluator(facts)
    n_random = 1500 if ctx.tier == "thorough" else 60
    def ref_body(mr, rules):
        r_ref = rules["R07-reference"]
        m, r = mr
        total = 0
        boundary, rest = REF.probes(m, ctx.seed, n_random=n_random, pairs=ctx.tier == "thorough")
        ps = boundary + rest
        bad = None
        for a, want in ps:
            got = ev.call(r.cls, "validate", [[a], ""])
            g = got[1] if got[0] == "ret" else (False if is_library_exc(ctx.program, got[1]) else got[1].name)
            total += 1
            if g is not want:
                bad = (a, want, g)
                break
        r_ref.instance({"method": m, "probes": len(ps), "reference-valid": sum(1 for _, v in ps if v)})
        if bad:
            shown = "accepted" if bad[2] is True else ("rejected" if bad[2] is False else f"raises {bad[2]}")
            r_ref.finding(f"DE:{m}.verdict", f"method {m}: account {bad[0]} is {shown}; the reference for the method says "
                          f"{'valid' if bad[1] else 'invalid'}", r.where, witness=bad[0])
        return total

    total = 0
    for recs, n_ in run_recorded(["R07-reference"], ref_body, [(m, r) for m, r in sorted(by_name.items()) if m in BB.ALL_METHODS]):
        replay({"R07-reference": r_ref}, recs)
        total += n_
    report.analysed["reference_probes"] = total

    # the verdict depends on nothing but method and account number: no method writes into shared class-level objects
    from ..state_eval import explore_algorithms
    from .c14 import shared_classes
    per_reg, shared_writes = explore_algorithms(ctx, shared_classes(ctx))
    for (name, fn, where_), e in sorted(shared_writes.items(), key=lambda kv: str(kv[0])):
        if "germany" in (where_ or "") or name.startswith("Algorithm") or name.startswith("Weighted"):
            r_pure.finding(f"{fn}:{name}", f"{fn} writes into {name}, an object shared by all validations of the method: the verdict for one account depends on the accounts validated before",
                           where_)

    report.not_decided += [
        "the special rules of methods 08, 16, 23, 24, 25, 26, 61, 63, 68, 76, 88, 91, 99 outside the probe family of R07-reference (every position x digit made reference-valid, the rule boundaries, seeded fills; thorough tier: every pair of positions x all digit values); "
        "the template part (parameters and hook tables) is decided for all inputs",
        "that the reference table equals the current Bundesbank publication (typed from it; it cannot be re-read in the sandbox)",
    ]
    report.trusted.append("sv/tables/bundesbank.py (reference parameters)")


def _check_reader(ctx, report, rule, by_name):
    """Bank entry -> method, decided by evaluation: BBAN.validate_national_checksum is evaluated on a German BBAN whose bank entry
    is (a) a registry entry naming method m, for every registered m, (b) an entry naming a method that is not implemented, (c) no
    entry at all.  (a) must hand the account number to the class registered as DE:m and to no other, (b) and (c) must accept
    without consulting any algorithm."""
    from ..values import Bound, Obj
    prog = ctx.program
    facts = ctx.facts
    bban_cls = prog.get("schwifty.bban.BBAN")
    f = bban_cls.methods.get("validate_national_checksum")
    bank = bban_cls.methods.get("bank")
    if f is None or bank is None:
        raise AnalysisError("anchor vanished: BBAN.validate_national_checksum / BBAN.bank")
    reps = {}
    for e in ctx.facts.tree_banks():   # the bank list as the tree's own loader composes it (see facts.tree_banks)
        if isinstance(e, dict) and e.get("country_code") == "DE" and e.get("checksum_algo") is not None:
            reps.setdefault(e["checksum_algo"], e)
    if not reps:
        raise AnalysisError("no German bank entry carries a method")
    template = dict(next(iter(reps.values())))
    cases = [(m, reps.get(m) or dict(template, checksum_algo=m)) for m in sorted(by_name)]
    unimpl = sorted(set(reps) - set(by_name))
    cases += [(None, reps[m]) for m in unimpl[:3]] + [(None, dict(template, checksum_algo="ZZ")), (None, None)]
    for m, entry in cases:
        it = facts.interp()
        it.no_split = 1
        it.intrinsics[bank.qualname] = lambda it_, a, k, n, entry=entry: (dict(entry) if entry is not None else None)

        def thunk():
            obj = Obj(bban_cls, strval="370400440532013000")
            obj.attrs["country_code"] = "DE"
            return it.call(it.getattr(obj, "validate_national_checksum"), [], {})

        try:
            outs = it.explore(thunk, max_paths=4000)
        except (CannotEvaluate, PathLimit) as e:
            raise AnalysisError(f"cannot evaluate BBAN.validate_national_checksum with a bank entry naming method {m!r}: {e}")
        reached = set()
        results = set()
        for o in outs:
            if o.kind == "infeasible":
                continue
            results.add("True" if (o.kind == "return" and o.value is True) else (o.value.name if o.kind == "raise" else repr(o.value)))
            for e in o.events:
                c = e.get("callee") if e["kind"] == "call" else None
                if isinstance(c, Bound) and c.func.name == "validate" and isinstance(c.recv, Obj) and e.get("func") == f.short:
                    reached.add(c.recv.cls.qualname)
        label = m if m is not None else (entry.get("checksum_algo") if entry else "<no entry>")
        rule.instance({"bank entry method": label, "consults": sorted(reached), "outcomes": sorted(results)} if (m is None or len(rule.samples) < 4) else None)
        if m is not None:
            want = by_name[m].cls.qualname
            if reached != {want}:
                rule.finding(f"reader:{m}", f"a German bank entry naming method {m!r} makes validate_national_checksum consult {sorted(reached) or 'no algorithm'}; "
                             f"the method is implemented by {want}", f.where)
        else:
            if reached:
                rule.finding(f"reader:unlisted:{label}", f"a German BBAN whose bank is {'not listed' if entry is None else 'listed with the unimplemented method ' + repr(label)} "
                             f"is judged by {sorted(reached)}; it must be accepted", f.where)
            elif results != {"True"}:
                rule.finding(f"reader:unlisted:{label}", f"a German BBAN whose bank is {'not listed' if entry is None else 'listed with the unimplemented method ' + repr(label)} "
                             f"gives {sorted(results)}; it must be accepted (True)", f.where)


def _check_method(ctx, report, r_tab, r_dig, m, cls, ref, where):
    facts = ctx.facts
    cid = f"DE:{m}"
    p = template_params(facts, cls)
    n = p["end"] - p["start"] + 1
    inst = {"method": m, "class": cls.qualname, "modulus": p["mod"], "positions": (p["start"], p["end"], p["check"]),
            "rtl": p["rtl"], "weights": p["weights"]}
    r_tab.instance(inst)
    for k, label in (("mod", "modulus"), ("start", "first checked position"), ("end", "last checked position"), ("check", "check digit position")):
        if p[k] != ref[k]:
            r_tab.finding(f"{cid}.{label.replace(' ', '_')}", f"method {m}: {label} is {p[k]}, the Bundesbank method has {ref[k]}", where)
    if bool(p["rtl"]) != ref["rtl"]:
        r_tab.finding(f"{cid}.direction", f"method {m}: weights applied {'right-to-left' if p['rtl'] else 'left-to-right'}, reference is the opposite", where)
    if n <= 0 or n > 10:
        r_tab.finding(f"{cid}.positions", f"method {m}: positions {p['start']}..{p['end']} do not select 1..10 digits", where)
        return
    eff = BB.effective_weights(p["weights"], n)
    ref_n = ref["end"] - ref["start"] + 1
    ref_eff = BB.effective_weights(ref["weights"], ref_n)
    if eff != ref_eff and n == ref_n:
        r_tab.finding(f"{cid}.weights", f"method {m}: effective weights over {n} digits are {eff}, the Bundesbank method has {ref_eff}", where)
    # summand table
    sfun = BB.SUMMAND[ref["summand"]]
    bad = None
    for w in sorted(set(eff) | set(ref_eff)):
        for d in range(10):
            got = _concrete_call(facts, cls, "compute_summand", [d, w])
            if got != ("ret", sfun(d, w)):
                bad = (d, w, got[1], sfun(d, w))
                break
        if bad:
            break
    if bad:
        r_tab.finding(f"{cid}.summand", f"method {m}: summand for digit {bad[0]} and weight {bad[1]} is {bad[2]!r}, reference ({ref['summand']}) gives {bad[3]}", where)
    # weighted sum on basis strings: zero, single digits, all nines, a mixed one
    probes = ["0" * n, "9" * n, "1234567890"[:n], "9081726354"[:n]]
    for i in range(n):
        for d in (1, 5, 9):
            probes.append("0" * i + str(d) + "0" * (n - i - 1))
    for s in probes:
        want = sum(sfun(int(c), w) for c, w in zip(s, ref_eff[: len(s)])) + ref["offset"]
        got = _concrete_call(facts, cls, "compute_weighted_sum", [s])
        if got != ("ret", want) and eff == ref_eff and not bad:
            r_tab.finding(f"{cid}.weighted_sum", f"method {m}: weighted sum of digits {s!r} is {got[1]!r}, reference gives {want}", where)
            break
    # remainder table
    top = sum(max(sfun(d, w) for d in range(10)) for w in ref_eff) + 2
    for x in range(0, top + 1):
        want = BB.remainder_ref(ref["remainder"], ref["mod"], x)
        got = _concrete_call(facts, cls, "compute_remainder", [x])
        if got != ("ret", want):
            if p["mod"] == ref["mod"]:
                r_tab.finding(f"{cid}.remainder", f"method {m}: remainder of sum {x} is {got[1]!r}, reference ({ref['remainder']} {ref['mod']}) gives {want}", where)
            break
    # result per stored remainder
    mapping, other = remainder_map(facts, cls, where)
    r_dig.instance({"method": m, "remainder -> results": {str(k): sorted(_show(v) for v in vs) for k, vs in sorted(mapping.items())}})
    for o in other:
        if o.kind == "raise" and not is_library_exc(ctx.program, o.value):
            r_dig.finding(f"{cid}.compute", f"method {m}: compute can raise {o.value.name} at {o.value.where} on a ten-digit account", where)
    for r_, results in sorted(mapping.items()):
        for kind, v in results:
            if kind == "raise":
                if not is_library_exc(ctx.program, v):
                    r_dig.finding(f"{cid}.r={r_}", f"method {m}: remainder {r_} makes compute raise {v.name} at {v.where}", where, witness=f"remainder {r_}")
            elif not (isinstance(v, str) and len(v) == 1 and v in "0123456789"):
                r_dig.finding(f"{cid}.r={r_}", f"method {m}: remainder {r_} yields check value {v!r}, which can never equal an account digit; "
                              "such accounts are always rejected", where, witness=f"remainder {r_}")
    if ref["fam"] is not None and p["mod"] == ref["mod"]:
        for r_ in range(ref["mod"] if ref["remainder"] == "mod" else 10):
            want = BB.family(ref["fam"], r_)
            got = mapping.get(r_)
            if got is None:
                r_tab.finding(f"{cid}.result", f"method {m}: remainder {r_} is never produced by compute()", where)
                break
            if want == BB.INVALID:
                ok = all(k == "raise" and is_library_exc(ctx.program, v) for k, v in got)
                shown = "a library exception (account invalid)"
            else:
                ok = got == {("ret", str(want))}
                shown = repr(str(want))
            if not ok:
                if any(k == "ret" and not (isinstance(v, str) and len(v) == 1 and v.isdigit()) for k, v in got):
                    continue  # already reported by R07-digit with the same cause
                r_tab.finding(f"{cid}.result", f"method {m}: remainder {r_} gives {sorted(_show(x) for x in got)}, the Bundesbank rule "
                              f"(family {ref['fam']}) gives {shown}", where, witness=f"remainder {r_}")
                break
    # special constants
    if "threshold" in ref:
        _check_threshold(ctx, r_tab, m, cls, ref, where)
    if "twin" in ref:
        _check_twin(ctx, r_tab, m, cls, ref, where)
    if "exempt" in ref:
        _check_exempt(ctx, r_tab, m, cls, ref, where)
    if "alt" in ref:
        _check_alt(ctx, r_tab, m, cls, ref, where)


def _show(kv):
    k, v = kv
    return f"raise {v.name}" if k == "raise" else repr(v)


def _validate(facts, cls, account):
    return _concrete_call(facts, cls, "validate", [[account], ""])


def _make_account(cls_params, ref, body_digits, check):
    """ten-digit account with given digits in the checked positions (others 0) and check digit"""
    acc = ["0"] * 10
    for i, c in zip(range(ref["start"] - 1, ref["end"]), body_digits):
        acc[i] = c
    acc[ref["check"] - 1] = check
    return "".join(acc)


def _check_threshold(ctx, rule, m, cls, ref, where):
    """Method 08: accounts below the threshold are not checked, from the threshold on they are."""
    facts = ctx.facts
    t = ref["threshold"]
    lo = f"{t - 1:010d}"
    hi_bad = None
    # find a check digit that is wrong for account t (try all ten; at most one is right)
    verdicts = {}
    for c in "0123456789":
        acct = f"{t:010d}"[:9] + c
        if int(acct) < t:
            continue
        verdicts[c] = _validate(facts, cls, acct)
    rejected = [c for c, v in verdicts.items() if v == ("ret", False)]
    below = []
    for c in "0123456789":
        acct = f"{t - 10:010d}"[:9] + c
        below.append(_validate(facts, cls, acct))
    rule.instance({"method": m, "threshold": t, "checked at threshold": len(rejected), "unchecked below": sum(v == ("ret", True) for v in below)})
    if len(rejected) != len(verdicts) - 1:
        acc = sorted(c for c, v in verdicts.items() if v != ("ret", False))
        rule.finding(f"DE:{m}.threshold", f"method {m}: accounts from {t} on carry a check digit (exactly one of the ten last digits is valid), but "
                     f"{len(acc)} are accepted at {f'{t:010d}'[:9]}x: {acc}", where, witness=f"{t:010d}")
    if not all(v == ("ret", True) for v in below):
        rule.finding(f"DE:{m}.threshold", f"method {m}: accounts below {t} are not subject to a check digit, but some near {t - 10} are rejected", where)
    # the threshold constant itself: just below the published threshold everything is accepted; a smaller
    # constant in the code shows as rejected accounts in [const, threshold)
    probe_points = [t // 10, t // 10 + 7, t // 2, t - 1000]
    for base in probe_points:
        vs = [_validate(facts, cls, f"{base:010d}"[:9] + c) for c in "0123456789"]
        if not all(v == ("ret", True) for v in vs):
            rule.finding(f"DE:{m}.threshold", f"method {m}: account numbers below {t} carry no check digit, yet accounts around {base} are rejected "
                         f"(the code checks from a smaller threshold)", where, witness=f"{base:010d}")
            break


def _check_twin(ctx, rule, m, cls, ref, where):
    """Methods 16 / 23: with remainder 1 the account is valid iff the two named digits are equal."""
    facts = ctx.facts
    a, b = ref["twin"]
    n = ref["end"] - ref["start"] + 1
    weights = BB.effective_weights(ref["weights"], n)
    # build digit strings (in weight order = right-to-left) whose weighted sum has remainder 1
    found = None
    import itertools
    for combo in itertools.product("0123456789", repeat=min(n, 3)):
        digs = list(combo) + ["0"] * (n - len(combo))
        total = sum(int(d) * w for d, w in zip(digs, weights))
        if total % ref["mod"] == 1 and digs[0] != "0":
            # digs[0] is the digit next to the check digit: non-zero, so the ordinary comparison (check digit 0) fails
            body = "".join(reversed(digs))  # left-to-right
            acc = ["0"] * 10
            for i, c in zip(range(ref["start"] - 1, ref["end"]), body):
                acc[i] = c
            # twin digits: position a is inside the body, position b is the check digit position
            acc[b - 1] = acc[a - 1]
            found = "".join(acc)
            break
    if found is None:
        raise AnalysisError(f"method {m}: no remainder-1 probe found")
    others = []
    for pos in range(10):
        if pos in (a - 1, b - 1):
            continue
        others.append(pos)
    v = _validate(facts, cls, found)
    rule.instance({"method": m, "twin positions": (a, b), "probe": found, "verdict": v[1]})
    if v != ("ret", True):
        rule.finding(f"DE:{m}.twin", f"method {m}: with remainder 1 an account whose digits {a} and {b} are equal is valid; {found} is rejected "
                     f"(the exception looks at other positions)", where, witness=found)
    # and the exception must not fire for other equal pairs: digits a/b different
    acc = list(found)
    acc[b - 1] = str((int(acc[a - 1]) + 1) % 10)
    for i in others:
        pass
    probe2 = "".join(acc)
    # make positions 9/10 (or whatever the code may look at) equal where that does not touch a, b or the body
    free = [i for i in range(10) if not (ref["start"] - 1 <= i < ref["end"]) and i != b - 1]
    if len(free) >= 2:
        acc2 = list(probe2)
        acc2[free[-1]] = acc2[free[-2]]
        probe2 = "".join(acc2)
        v2 = _validate(facts, cls, probe2)
        if v2 == ("ret", True):
            rule.finding(f"DE:{m}.twin", f"method {m}: {probe2} has remainder 1 and different digits at {a}/{b}; it must be rejected", where, witness=probe2)


def _check_exempt(ctx, rule, m, cls, ref, where):
    facts = ctx.facts
    lo, hi = ref["exempt"]
    inside = [lo, lo + 1, (lo + hi) // 2, hi - 1, hi, lo + 123456]
    bad_in = []
    for x in inside:
        vs = [_validate(facts, cls, f"{x:010d}"[:9] + c) for c in "0123456789"]
        # all ten variants that stay inside the range must be accepted
        for c, v in zip("0123456789", vs):
            y = int(f"{x:010d}"[:9] + c)
            if lo <= y <= hi and v != ("ret", True):
                bad_in.append(f"{y:010d}")
    rule.instance({"method": m, "exempt range": [lo, hi], "rejected inside": bad_in[:3]})
    if bad_in:
        rule.finding(f"DE:{m}.exempt", f"method {m}: account numbers {lo:010d}..{hi:010d} carry no check digit and are valid; {bad_in[0]} is rejected", where, witness=bad_in[0])
    for x in (lo - 10, hi + 11):
        vs = [_validate(facts, cls, f"{x:010d}"[:9] + c) for c in "0123456789"]
        if sum(v == ("ret", True) for v in vs) > 2:
            rule.finding(f"DE:{m}.exempt", f"method {m}: accounts around {x:010d} are outside the exempt range but are accepted unchecked", where, witness=f"{x:010d}")


def _check_alt(ctx, rule, m, cls, ref, where):
    """Method 88: alternative positions when a given digit has a given value."""
    facts = ctx.facts
    alt = ref["alt"]
    pos, val = alt["when"]
    acct = ["1"] * 10
    acct[pos - 1] = val
    acct = "".join(acct)
    it = facts.interp()
    obj = it.instantiate(cls, [], {}, None)
    got = it.call(it.getattr(obj, "get_positions"), [acct], {})
    ok = isinstance(got, Obj) and (got.attrs.get("start"), got.attrs.get("end"), got.attrs.get("check_digit")) == (alt["start"], alt["end"], alt["check"])
    rule.instance({"method": m, "alternative positions": (alt["start"], alt["end"], alt["check"]), "when": alt["when"]})
    if not ok:
        rule.finding(f"DE:{m}.alt", f"method {m}: with digit {pos} = {val} positions {alt['start']}..{alt['end']} are checked; the code selects "
                     f"{got.attrs if isinstance(got, Obj) else got!r}", where, witness=acct)
    n = alt["end"] - alt["start"] + 1
    w = it.getattr(obj, "weights")
    if BB.effective_weights(w, n) != BB.effective_weights(alt["weights"], n):
        rule.finding(f"DE:{m}.alt_weights", f"method {m}: alternative weights are {BB.effective_weights(w, n)}, reference {alt['weights']}", where)


def _check_91(ctx, report, rule, r91):
    """Method 91 accepts iff one of the four variants accepts - decided by evaluation: for every variant, accounts that only this
    variant accepts (by the reference) must be accepted, and accounts no variant accepts must be rejected."""
    import random
    from ..algo_eval import Evaluator
    from ..tables import bundesbank_ref as REF
    ev = Evaluator(ctx.facts)
    rnd = random.Random(9100 + ctx.seed)
    only = {k: [] for k in BB.VARIANTS_91}
    none = []
    want_each = 12 if ctx.tier == "thorough" else 4
    for _ in range(20000):
        if all(len(v) >= want_each for v in only.values()) and len(none) >= want_each:
            break
        a = "".join(rnd.choice("0123456789") for _ in range(10))
        acc = [k for k, ref in BB.VARIANTS_91.items() if REF._template(a, ref)[2]]
        if len(acc) == 1 and len(only[acc[0]]) < want_each:
            only[acc[0]].append(a)
        elif not acc and len(none) < want_each:
            none.append(a)
    if any(not v for v in only.values()) or not none:
        raise AnalysisError("method 91: could not construct accounts separating the four variants")
    for k, accounts in only.items():
        bad = None
        for a in accounts:
            got = ev.call(r91.cls, "validate", [[a], ""])
            if got != ("ret", True) and bad is None:
                bad = (a, got)
        rule.instance({"method": "91", "variant": k, "accounts only this variant accepts": accounts[:3], "accepted": bad is None})
        if bad:
            rule.finding("DE:91.variants", f"method 91: account {bad[0]} is valid by {k} (and by no other variant) but is "
                         f"{'rejected' if bad[1] == ('ret', False) else 'answered with ' + repr(bad[1])[:60]}: validate does not consult {k}", r91.where, witness=bad[0])
    for a in none:
        got = ev.call(r91.cls, "validate", [[a], ""])
        if got != ("ret", False):
            rule.finding("DE:91.none", f"method 91: account {a} is valid by none of the four variants but validate gives {got!r}", r91.where, witness=a)
            break
    rule.instance({"method": "91", "accounts no variant accepts": none[:3]})
