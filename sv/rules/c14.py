"""C14 — concurrent use gives every caller the answer it would get alone (sufficient condition: no runtime write to shared state)."""
from __future__ import annotations

import ast

from ..effects import Effects, interprocedural_taint
from ..srcmodel import AnalysisError, Func

IMPORT_ONLY = ("schwifty.registry.save", "schwifty.registry.manipulate", "schwifty.registry.build_index", "schwifty.registry.parse_v2")


def shared_classes(ctx):
    prog = ctx.program
    out = {}
    for r in ctx.facts.registrations():
        for c in r.cls.mro(prog):
            out[id(c)] = c
    return out


def module_level_instances(prog):
    """(module, name, class) for every object of a package class created by a module-level statement: one object for the whole process."""
    from ..srcmodel import Class
    out = []
    for m in prog.modules.values():
        cands = []
        for st in m.toplevel:
            if isinstance(st, (ast.Assign, ast.AnnAssign)) and getattr(st, "value", None) is not None:
                tgt = st.targets[0] if isinstance(st, ast.Assign) else st.target
                cands.append((ast.unparse(tgt), st.value))
        for name, d in m.defs.items():
            if isinstance(d, tuple) and d[0] == "const" and isinstance(d[1], ast.AST):
                cands.append((name, d[1]))
        for name, val in cands:
            if isinstance(val, ast.Call) and isinstance(val.func, (ast.Name, ast.Attribute)):
                try:
                    d = prog.resolve_expr(m, val.func)
                except AnalysisError:
                    d = None
                if isinstance(d, Class):
                    out.append((m, name, d))
    return out


def module_object_rule(ctx, eff, rule):
    """Stores to self.<attr> outside the constructor in a class one instance of which is created at module level (a lazily filled table,
    a memo on a singleton): every thread and every call shares that object.  Decided on the syntax tree alone, so it still answers when the
    rest of the analysis cannot evaluate the class (a subclass of a builtin container)."""
    prog = ctx.program
    for m, name, cls in module_level_instances(prog):
        rule.instance({"module-level object": f"{m.relpath}: {name} = {cls.name}(...)"})
        for k in cls.mro(prog):
            for f in eff.funcs:
                if f.cls is not k or f.name in ("__init__", "__new__", "__init_subclass__"):
                    continue
                for e in eff.direct_effects(f):
                    if e.kind == "self-store":
                        rule.finding(f"{f.short}:self.{e.target}", f"{f.short} stores self.{e.target} after construction, and {name} in {m.relpath} is one {cls.name} object created when "
                                     f"the module is imported: every caller and every thread shares it, so what one call leaves there (a 'loaded' flag set before the "
                                     f"loading is done, a memo) is what a concurrent or later call reads", e.where, witness={"object": name, "class": cls.name, "attribute": e.target})


def lazy_facts(ctx, eff):
    """R14-lazy: names loaded at import and the names read at runtime."""
    prog = ctx.program
    from ..intrinsics import _module_level_calls, index_specs
    loaded = set()
    for spec_name, spec in index_specs(ctx.facts).items():
        loaded.add(spec_name)
        loaded.add(spec["base"])
    it = ctx.facts.interp()
    for mod, call, c in _module_level_calls(prog, "schwifty.registry.manipulate"):
        if c.args and isinstance(c.args[0], str):
            loaded.add(c.args[0])
    for mod, call, c in _module_level_calls(prog, "schwifty.registry.get"):
        if c.args and isinstance(c.args[0], str):
            loaded.add(c.args[0])
    sites = []
    for f in eff.funcs:
        for n in eff.own_nodes(f):
            if isinstance(n, ast.Call):
                d = prog.resolve_expr(f.module, n.func) if isinstance(n.func, (ast.Name, ast.Attribute)) else None
                if isinstance(d, Func) and d.qualname == "schwifty.registry.get":
                    sites.append((f, n))
    return loaded, sites


def get_is_guarded(ctx):
    """A second registry.get of the same name touches neither the file system nor the cache: it returns the cached object before doing
    any work.  Decided by evaluation on a virtual directory (two calls in one path; the second must produce no directory listing,
    no file read and no store into the cache, and return the very object the first returned)."""
    from ..interp import CannotEvaluate, Interp, PathLimit
    g = ctx.program.get("schwifty.registry.get")
    it = Interp(ctx.program)
    it.vfs = {("path", "schwifty", "iban_registry"): [("a.json", {"AA": {"x": 1}}), ("b.json", {"AA": {"y": 2}})]}
    marks = {}

    def thunk():
        first = it.call_func(g, ["iban"], {}, None)
        marks["n"] = len(it.events)
        second = it.call_func(g, ["iban"], {}, None)
        return first, second

    try:
        outs = [o for o in it.explore(thunk, max_paths=50) if o.kind != "infeasible"]
    except (CannotEvaluate, PathLimit) as e:
        raise AnalysisError(f"cannot evaluate registry.get twice on a virtual directory: {e}")
    if len(outs) != 1 or outs[0].kind != "return":
        return False
    first, second = outs[0].value
    later = outs[0].events[marks["n"]:]
    touched = [e for e in later if e["kind"] in ("glob", "open", "json_load", "store_item", "mutate", "global_store")]
    return first is second and not touched


def slow_path_skip(ctx, eff, lazy_ok):
    """Edges out of registry.get that lie behind its `already loaded -> return` guard: when every run-time call of get names a registry
    that is loaded while the package is imported (lazy_ok), that part of get - and whatever helper it hands the loading to - cannot run
    at run time.  Callees that the guard itself uses stay reachable."""
    g = ctx.program.get("schwifty.registry.get")
    body = [st for st in g.node.body if not (isinstance(st, ast.Expr) and isinstance(st.value, ast.Constant))]
    guard_callees = set()
    if body and isinstance(body[0], ast.If):
        for n in ast.walk(body[0]):
            if isinstance(n, ast.Call) and isinstance(n.func, (ast.Name, ast.Attribute)):
                d = ctx.program.resolve_expr(g.module, n.func)
                if isinstance(d, Func):
                    guard_callees.add(d.qualname)

    def skip(f, h):
        return lazy_ok and f.qualname == "schwifty.registry.get" and h.qualname not in guard_callees

    return skip


def run(ctx, report):
    prog = ctx.program
    eff = Effects(prog)
    r_mo = report.rule("R14-module-objects", floor=0, what="no class with an instance created at module level stores attributes outside its constructor")
    module_object_rule(ctx, eff, r_mo)
    r_mo.instance({"module-level instances of package classes": len(module_level_instances(prog))})
    shared = shared_classes(ctx)
    report.explanation = (
        "Sufficient condition for every interleaving: no function reachable at run time from the public API writes state that another thread can reach. "
        "A call graph is built from the AST (methods resolved through the class hierarchy, property loads as calls); functions are classified import-time / run-time; "
        "every store to a module global, mutation of a module-level container, store to self.<attr> of a class whose instances live in the process-wide algorithm table, "
        "and mutation of data handed out by registry.get is collected."
    )
    loaded, sites = lazy_facts(ctx, eff)
    guarded = get_is_guarded(ctx)
    roots = eff.runtime_roots()
    r_lazy = report.rule("R14-lazy", floor=5, what="runtime registry.get sites pass literal names that were loaded at import; get() writes only on a miss")
    runtime_all = eff.reachable(roots)
    lazy_ok = guarded
    for f, n in sites:
        if id(f) not in runtime_all or f.qualname in IMPORT_ONLY:
            continue
        arg = n.args[0] if n.args else None
        from ..intrinsics import const_str
        name = const_str(prog, f.module, arg) if arg is not None else None
        r_lazy.instance({"site": f"{f.module.relpath}:{n.lineno}", "function": f.short, "name": name})
        if name is None:
            r_lazy.finding(f"{f.short}:get", f"registry.get is called at run time with a name that is not a compile-time constant ({ast.unparse(arg) if arg else '?'}); it may load and write the cache "
                           "from several threads at once", f"{f.module.relpath}:{n.lineno}")
            lazy_ok = False
        elif name not in loaded:
            r_lazy.finding(f"{f.short}:get({name})", f"registry.get({name!r}) at run time: that registry is not loaded at import, so the first callers race on the cache", f"{f.module.relpath}:{n.lineno}")
            lazy_ok = False
    if not guarded:
        r_lazy.finding("registry.get:guard", "registry.get no longer returns the cached registry before doing any work", prog.get("schwifty.registry.get").where)

    skip = slow_path_skip(ctx, eff, lazy_ok)

    runtime = eff.reachable(roots, skip_edge=skip)
    report.analysed = {"functions": len(eff.funcs), "runtime_reachable": len(runtime), "shared_classes": len(shared),
                       "registries_loaded_at_import": sorted(loaded)}
    r_sh = report.rule("R14-shared", floor=60, what="no runtime-reachable write to a module global, a module-level container or self.<attr> of a shared algorithm object")
    r_al = report.rule("R14-alias", floor=60, what="data handed out by registry.get is never mutated at run time")
    ptaint = interprocedural_taint(eff)
    for fid, (f, via) in sorted(runtime.items(), key=lambda kv: kv[1][0].qualname):
        effects = eff.direct_effects(f)
        r_sh.instance({"function": f.qualname, "effects": [repr(e) for e in effects]} if effects and len(r_sh.samples) < 5 else None)
        r_al.instance(None)
        for e in effects:
            if e.kind in ("global-store", "module-mutation"):
                r_sh.finding(f"{f.short}:{e.target}", f"{f.short} writes module-level state {e.target!r} {e.detail} and is reachable at run time ({eff.path_to(runtime, f)})",
                             e.where)
            elif e.kind == "self-store" and f.cls is not None and id(f.cls) in shared and f.name not in ("__init__", "__new__"):
                readers = _readers(eff, f, e.target)
                r_sh.finding(f"{f.short}:self.{e.target}", f"{f.short} stores self.{e.target} on an algorithm object that is a process-wide singleton (created once by register()); "
                             f"read by {readers or 'no other method'} — two threads validating accounts of the same method can see each other's value", e.where,
                             witness={"writer": f.short, "readers": readers})
            elif e.kind == "default-mutation":
                r_sh.finding(f"{f.short}:{e.target}", f"{f.short} uses its mutable default argument {e.target!r} as working storage ({e.detail}): the one default object is "
                            "shared by every call and every thread", e.where)
            elif e.kind == "tainted-mutation":
                r_al.finding(f"{f.short}:{e.target}", f"{f.short} mutates {e.target!r} ({e.detail}), which aliases the shared registry data", e.where)
            elif e.kind == "param-mutation" and e.target.split(".")[0] in ptaint.get(id(f), ()):
                r_al.finding(f"{f.short}:{e.target}", f"{f.short} mutates its parameter {e.target!r} {e.detail}, which callers bind to registry data", e.where)
    # writes into objects created once at class / module level, seen by abstract evaluation of every registered algorithm
    from ..state_eval import explore_algorithms
    r_ob = report.rule("R14-objects", floor=55, what="no registered algorithm writes into an object created at class / module level (shared by all threads)")
    per_reg, shared_writes = explore_algorithms(ctx, shared)
    for r, _ in per_reg:
        r_ob.instance({"key": r.key} if len(r_ob.samples) < 3 else None)
    for (name, fn, where), e in sorted(shared_writes.items(), key=lambda kv: str(kv[0])):
        r_ob.finding(f"{fn}:{name}", f"{fn} writes into {name}, an object created once at class / module level and shared by all threads "
                     f"({e['kind']} {e.get('attr') or e.get('op') or ''}): concurrent calls read each other's value", where)
    report.assumptions += ["imports complete before the library is used from several threads", "pycountry's lazy database load is lock-protected; re's pattern cache and per-call rstr instances are safe under the GIL"]
    report.not_decided += ["a design based on locks or thread-local storage would need a lock-set rule; this check only recognises the absence of shared writes"]


def _readers(eff, writer, attr):
    out = []
    for g in eff.funcs:
        if g.cls is None or g is writer:
            continue
        if not (writer.cls in g.cls.mro(eff.program) or g.cls in writer.cls.mro(eff.program)):
            continue
        sn = g.params()[0] if g.params() else None
        for n in eff.own_nodes(g):
            if isinstance(n, ast.Attribute) and n.attr == attr and isinstance(n.ctx, ast.Load) and isinstance(n.value, ast.Name) and n.value.id == sn:
                out.append(g.short)
                break
    return sorted(out)
