"""C04 — BIC acceptance is exactly the ISO 9362 structure with a known country code."""
from __future__ import annotations

from ..relang import DFA
from ..srcmodel import AnalysisError
from ..values import SStr
from ..vmodel import BicModel, S_TERM, classify
from ..vrules import accept_language, consistent, describe_valuation, semantic, valuations


def run(ctx, report):
    from .premises import accessor_entries, stateless_premise
    stateless_premise(ctx, report, 'R04-P1-stateless', ['bic-validate'], extra=None, stop=(), without_national=True, outside=("schwifty.iban", "schwifty.bban"))
    # premise of the symbolic model below (it starts from the cleaned text): the object carries clean(raw), clean removes exactly the
    # whitespace and upper-cases.  A finding here means the statement's "after removing whitespace and upper-casing" is already broken.
    from .c10 import normalisation_rules
    try:
        normalisation_rules(ctx, report, "R04-P0")
    except AnalysisError as e:
        report.notes.append(f"normalisation premise not decided: {e}")
    m = BicModel(ctx)
    A = m.alpha
    report.explanation = (
        "Every path through BIC.__init__ / validate / is_valid is enumerated symbolically for both compliance modes; each path "
        "carries the regular language of texts that take it. The accepted language is compared, as automata over a partition of all "
        "code points, with the ISO 9362 language (8 or 11 characters, classes per position), for every valuation of the one opaque "
        "condition (country known to pycountry). Inclusion is decided for all strings at once."
    )
    report.analysed = {"paths": {k: len(v) for k, v in m.paths.items()}, "alphabet_atoms": A.n,
                       "explorations": m.va.runs}
    atoms = m.all_atoms()
    r_atom = report.rule("R04-country", floor=1, what="the only opaque condition is the ISO 3166 lookup of characters 5-6")
    for a, (kind, detail) in atoms.items():
        r_atom.instance({"atom": repr(a)[:160], "kind": kind})
        if kind == "known":
            key = detail["key"]
            if not (isinstance(key, SStr) and key.term == ("slice", S_TERM, 4, 6)):
                r_atom.finding("BIC.country", f"the country lookup is keyed on {key!r}, not on characters 5-6 of the BIC", _where(m, "country"))
        elif kind != "known":
            r_atom.finding("BIC.validate:condition", f"acceptance consults a condition outside ISO 9362: {a!r}", _where(m, "validate"))
    if not any(k == "known" for k, _ in atoms.values()):
        r_atom.finding("BIC.validate:country", "no path consults the ISO 3166 country lookup", _where(m, "_validate_country_code"))

    r_up = report.rule("R04-incl-upper", floor=4, what="accepted language is contained in ISO 9362 (no false accept)")
    r_lo = report.rule("R04-incl-lower", floor=4, what="ISO 9362 language is contained in the accepted language (no false reject)")
    for key, strict in (("init", False), ("init_swift", True), ("validate", False), ("validate_swift", True), ("is_valid", False)):
        paths = m.paths[key]
        kinds = ("return",)
        for v in valuations(atoms):
            sem = semantic(atoms, v)
            if key == "is_valid":
                acc = accept_language(m, paths, v, pred=lambda p: p.value is True)
            else:
                acc = accept_language(m, paths, v)
            want = m.spec[strict] if sem.get("known", True) and all(sem.get(k, True) for k in sem if k != "known") else DFA.empty(A)
            # conditions of unrecognised kind must not matter: the spec ignores them
            want = m.spec[strict] if sem.get("known", True) else DFA.empty(A)
            inst = {"entry": key, "strict": strict, "conditions": describe_valuation(atoms, v)}
            r_up.instance(inst)
            r_lo.instance(inst)
            extra = acc.minus(want)
            if not extra.is_empty():
                w = m.witness(extra)
                r_up.finding(f"BIC.{_entry(key)}[{'swift' if strict else 'iso9362'}]",
                             f"text accepted outside ISO 9362 ({describe_valuation(atoms, v)}): the checks on this path admit it",
                             _where(m, "_validate_structure"), witness=w)
            missing = want.minus(acc)
            if not missing.is_empty():
                w = m.witness(missing)
                r_lo.finding(f"BIC.{_entry(key)}[{'swift' if strict else 'iso9362'}]",
                             f"ISO 9362 text rejected ({describe_valuation(atoms, v)})", _where(m, "validate"), witness=w)
    report.not_decided += ["contents of pycountry's ISO 3166 table (the lookup is an opaque predicate shared by code and specification)"]
    report.assumptions += ["texts are normalised by clean() before validation (decided by C10's rules)"]


def _entry(key):
    return {"init": "__init__", "init_swift": "__init__", "validate": "validate", "validate_swift": "validate", "is_valid": "is_valid"}[key]


def _where(m, name):
    c = m.prog.get("schwifty.bic.BIC")
    f = c.methods.get(name)
    return f.where if f is not None else c.where
