"""C09 — computed national check digits validate; parsing and rebuilding round-trips."""
from __future__ import annotations

from ..algo_eval import Evaluator, accepts_of, all_values_agreement, country_fields, is_library_exc, probes, struct_positions
from ..gen_eval import GUARDED, GenHarness, pattern
from ..srcmodel import AnalysisError
from ..tables import national as NAT
from ..values import Obj

ACCESSORS = ["bank_code", "branch_code", "account_code", "national_checksum_digits", "account_type", "account_id", "account_holder_id", "currency_code"]


def run(ctx, report):
    from .premises import accessor_entries, stateless_premise
    stateless_premise(ctx, report, 'R09-P1-stateless', ['national', 'generate', 'random'], extra=None, stop=(), outside=("schwifty.bic",))
    prog = ctx.program
    reg = ctx.registry
    facts = ctx.facts
    h = GenHarness(ctx)
    ev = Evaluator(facts)
    report.explanation = (
        "For the 19 countries with separately computed national check digits the algorithm objects are evaluated on a probe family that varies every accepted position over its class: "
        "validate(fields, compute(fields)) must be true and every other digit value must be rejected. For every country with published positions a BBAN is built from components by the "
        "tree's from_components, read back through the accessors, rebuilt, and must be reproduced exactly (filler positions zero); built BBANs must pass the BBAN-level national check; "
        "BBAN.random is shown to return only through from_components."
    )
    regs = {r.key: r for r in facts.registrations()}
    r_same = report.rule("R09-same", floor=19, what="validate accepts exactly the digits compute produces (all probes, all other digit values rejected)")
    from ..par import replay, run_recorded

    def same_body(cc, rules):
        r_same = rules["R09-same"]
        r = regs.get(f"{cc}:default")
        if r is None or cc not in reg.countries:
            r_same.instance({"country": cc, "registered": False})
            r_same.finding(f"{cc}:unregistered", f"no algorithm registered for {cc}", None)
            return
        it = facts.interp()
        obj = it.instantiate(r.cls, [], {}, None)
        acc = accepts_of(it, obj)
        fields = country_fields(reg, cc)
        nat = fields.get("national_checksum_digits")
        n = 0
        mism = None
        computed = []
        for p in probes(fields, acc, ctx.seed, n_random=400 if ctx.tier == "thorough" else 12):
            args = [p.get(c, "") for c in acc]
            got = ev.call(r.cls, "compute", [args])
            n += 1
            if got[0] == "exc":
                if not is_library_exc(prog, got[1]) and mism is None:
                    mism = (p, f"compute raises {got[1].name}")
                continue
            digits = got[1]
            computed.append((p, args, digits))
            v = ev.call(r.cls, "validate", [args, digits])
            if v != ("ret", True) and mism is None:
                mism = (p, f"validate(fields, compute(fields) = {digits!r}) gives {_s(v)}")
            # a different value of the same width must be rejected
            if isinstance(digits, str) and digits:
                other = _other(digits)
                v2 = ev.call(r.cls, "validate", [args, other])
                if v2 != ("ret", False) and mism is None:
                    mism = (p, f"validate accepts {other!r} although compute gives {digits!r}")
            if "national_checksum_digits" in acc and mism is None:
                mism = (p, "the algorithm reads the check-digit field it is supposed to compute")
        if mism is None and computed:
            extra, mism = all_values_agreement(ev, r.cls, acc, computed)
            n += extra
        r_same.instance({"country": cc, "probes": n})
        if mism:
            r_same.finding(f"{cc}:agreement", f"{r.cls.qualname}: {mism[1]} for {cc} fields { {c: mism[0].get(c, '') for c in acc} }", r.where,
                           witness={c: mism[0].get(c, "") for c in acc})

    for recs, _ in run_recorded(["R09-same"], same_body, list(NAT.COMPUTING)):
        replay({"R09-same": r_same}, recs)

    r_rb = report.rule("R09-readback", floor=100, what="from_components -> accessors -> from_components reproduces the BBAN; unassigned positions are the zero filler")
    r_nat = report.rule("R09-built-valid", floor=100, what="a BBAN built from components passes the BBAN-level national check")
    countries = [cc for cc in sorted(reg.countries) if reg.positions(cc) and struct_positions(reg, cc)]
    def readback_body(cc, rules):
        r_rb, r_nat = rules["R09-readback"], rules["R09-built-valid"]
        nbad = 0
        fields = country_fields(reg, cc)
        n = reg.countries[cc]["bban_length"]
        for salt in (0, 4):
            vals = {c: pattern(fields[c][2], salt=salt + 3 * i) for i, c in enumerate(GUARDED) if c in fields}
            res = h.from_components(cc, **vals)
            if res[0] == "exc":
                r_rb.instance(None)
                if not is_library_exc(prog, res[1]):
                    r_rb.finding(f"{cc}:build", f"{cc}: from_components({vals}) raises {res[1].name} at {res[1].where}", res[1].where, witness=vals)
                continue
            b1, obj = res[1], res[2]
            comps = h.components_of(obj, ACCESSORS)
            if comps[0] != "ret":
                r_rb.finding(f"{cc}:read", f"{cc}: reading components of {b1!r} raises {comps[1].name}", h.bban.where, witness=b1)
                continue
            back = {c: v for c, v in comps[1].items() if c in GUARDED and v != ""}
            res2 = h.from_components(cc, **back)
            r_rb.instance({"country": cc, "components": vals, "bban": b1, "read back": back} if cc in ("ES", "GB") and salt == 0 else None)
            covered = [False] * n
            for c, (a, b, _) in fields.items():
                for i in range(a, b):
                    covered[i] = True
            filler_ok = isinstance(b1, str) and all(b1[i] == "0" for i in range(n) if not covered[i])
            same = res2[0] == "ret" and res2[1] == b1
            if not same or not filler_ok:
                nbad += 1
                if nbad <= 2:
                    what = f"rebuilding from the components read back gives {_s(res2)}" if not same else "positions outside every component are not the zero filler"
                    r_rb.finding(f"{cc}:roundtrip", f"{cc}: BBAN {b1!r} built from {vals}: {what}", h.bban.methods["from_components"].where, witness={"country": cc, **vals})
            # components read back must equal what was supplied (padded)
            for c, v in vals.items():
                a, b, _ = fields[c]
                if comps[1].get(c) != v.zfill(b - a):
                    nbad += 1
                    if nbad <= 2:
                        r_rb.finding(f"{cc}:{c}", f"{cc}: supplied {c}={v!r} reads back as {comps[1].get(c)!r}", h.bban.where, witness={"country": cc, **vals})
            if cc in NAT.VERDICT:
                # CZ, SK, IS keep no separately computed check digits: arbitrary components need not be nationally valid
                continue
            ok = h.national_ok(obj)
            r_nat.instance({"country": cc, "bban": b1, "national check": _s(ok)} if cc in ("ES", "IT") and salt == 0 else None)
            if ok != ("ret", True):
                r_nat.finding(f"{cc}:built-invalid", f"{cc}: BBAN {b1!r} built by from_components does not pass the national check ({_s(ok)}): computing and validating disagree",
                              h.bban.methods["validate_national_checksum"].where, witness={"country": cc, **vals})

    def spelled_body(cc, rules):
        # the same build with the country code spelled in lower case: a library error (today's answer) or a BBAN that passes the national check -
        # never a BBAN whose check digits were left uncomputed because the algorithm was looked up under another spelling
        r_nat = rules["R09-built-valid"]
        fields = country_fields(reg, cc)
        vals = {c: pattern(fields[c][2], salt=3 * i) for i, c in enumerate(GUARDED) if c in fields}
        for spelled in (cc.lower(), cc[0] + cc[1].lower()):
            res = h.from_components(spelled, **vals)
            r_nat.instance({"country code as given": spelled, "outcome": res[1].name if res[0] == "exc" else res[1]} if cc == "BE" else None)
            if res[0] == "exc":
                if not is_library_exc(prog, res[1]):
                    r_nat.finding(f"{cc}:spelled:{res[1].name}", f"from_components({spelled!r}, ...) raises {res[1].name} at {res[1].where}", res[1].where, witness={"country": spelled, **vals})
                continue
            ok = h.national_ok(res[2])
            if ok != ("ret", True):
                r_nat.finding(f"{cc}:spelled-invalid", f"from_components({spelled!r}, {vals}) returns {res[1]!r}, which does not pass the national check ({_s(ok)}): the country code is "
                              "accepted in this spelling but the check digits were not computed for it", h.bban.methods["from_components"].where, witness={"country": spelled, **vals})

    computing = [cc for cc in countries if f"{cc}:default" in regs and cc not in NAT.VERDICT]
    for recs, _ in run_recorded(["R09-built-valid"], spelled_body, computing):
        replay({"R09-built-valid": r_nat}, recs, cap=8)

    for recs, _ in run_recorded(["R09-readback", "R09-built-valid"], readback_body, countries):
        replay({"R09-readback": r_rb, "R09-built-valid": r_nat}, recs, cap=8)

    # ------------------------------------------------------------------ R09-converse
    # The converse clause starts from a BBAN that was *not* built by from_components: a structure-conforming text, every position non-zero and
    # position-revealing, that passes the tree's own national check (for the countries without a registered algorithm every such text does;
    # for the others the texts that pass are kept, the rest say nothing).  All components are read off it, it is rebuilt from all of them and
    # must come back exactly, apart from positions that belong to no component (those are the zero filler).
    r_cv = report.rule("R09-converse", floor=80, what="a structure-conforming BBAN that passes the national check is reproduced by from_components from all components read off it (positions outside every component become '0')")

    def converse_body(cc, rules):
        r_cv = rules["R09-converse"]
        st = struct_positions(reg, cc)
        fields = country_fields(reg, cc)
        n = len(st)
        covered = [False] * n
        for c, (a, b, _) in fields.items():
            for i in range(a, b):
                covered[i] = True
        done = 0
        for salt in (0, 5, 2):
            text = pattern(st, salt=salt)
            res = h.bban_of(cc, text)
            if res[0] != "ret" or not isinstance(res[1], Obj):
                continue
            obj = res[1]
            if h.national_ok(obj) != ("ret", True):
                continue     # not nationally valid: outside the clause
            comps = h.components_of(obj, ACCESSORS)
            if comps[0] != "ret":
                r_cv.instance(None)
                r_cv.finding(f"{cc}:read", f"{cc}: reading components of {text!r} raises {comps[1].name}", h.bban.where, witness=text)
                continue
            back = {c: v for c, v in comps[1].items() if v != ""}
            res2 = h.from_components(cc, **back)
            want = "".join(ch if covered[i] else "0" for i, ch in enumerate(text))
            done += 1
            r_cv.instance({"country": cc, "bban": text, "components": back, "rebuilt": _s(res2)} if cc in ("FO", "GB") and done == 1 else None)
            if res2[0] != "ret" or res2[1] != want:
                r_cv.finding(f"{cc}:converse", f"{cc}: the nationally valid BBAN {text!r} decomposes into {back}; rebuilding from these components gives {_s(res2)}, "
                             f"not {want!r}", h.bban.methods["from_components"].where, witness={"country": cc, "bban": text})
                break
        return done

    for recs, _ in run_recorded(["R09-converse"], converse_body, countries):
        replay({"R09-converse": r_cv}, recs, cap=8)

    # ------------------------------------------------------------------ R09-funnel
    r_f = report.rule("R09-funnel", floor=15, what="for every country with computed national digits, whatever BBAN.random returns was produced by from_components (by evaluation)")
    f = h.bban.methods.get("random")
    fc = h.bban.methods.get("from_components")
    if f is None or fc is None:
        raise AnalysisError("anchor vanished: BBAN.random / BBAN.from_components")
    def funnel_body(cc, rules):
        r_f = rules["R09-funnel"]
        if cc not in reg.countries or not reg.positions(cc):
            return
        outs = _explore_random_funnel(ctx, h.bban, fc, cc, False) + _explore_random_funnel(ctx, h.bban, fc, cc, True)
        rets = [o for o in outs if o.kind == "return"]
        bypass = []
        for o in rets:
            made = {e["oid"] for e in o.events if e["kind"] == "fc_result"}
            if not (isinstance(o.value, Obj) and o.value.oid in made):
                bypass.append(o)
        r_f.instance({"country": cc, "returning paths": len(rets), "through from_components": len(rets) - len(bypass)})
        if not rets:
            r_f.finding(f"BBAN.random:{cc}:no-result", f"BBAN.random({cc!r}) has no returning path", f.where)
        if bypass:
            v = bypass[0].value
            shown = repr(v.strval) if isinstance(v, Obj) else repr(v)
            r_f.finding("BBAN.random:bypass", f"BBAN.random({cc!r}) can return a value ({shown[:80]}) that was not produced by from_components "
                        "(no padding, guards or national check digits)", f.where)

    for recs, _ in run_recorded(["R09-funnel"], funnel_body, list(NAT.COMPUTING)):
        replay({"R09-funnel": r_f}, recs)
    for cc in NAT.COMPUTING:
        if cc in reg.countries and not reg.positions(cc):
            r_f.finding(f"{cc}:positions", f"{cc} has a national algorithm but publishes no positions: random BBANs bypass it", None)
    report.not_decided += ["the value-level round trip for component values that are not class-conforming (cleaning and padding are no-ops only on well-formed components)",
                           "agreement over all field values: decided on the probe family (every accepted position varied over its class) and two position-revealing patterns per country"]


def _other(d):
    if d.isdigit():
        return f"{(int(d) + 1) % (10 ** len(d)):0{len(d)}d}"
    return "".join(chr((ord(c) - 65 + 1) % 26 + 65) if c.isalpha() else c for c in d)


def _s(r):
    return f"raises {r[1].name}" if r[0] == "exc" else repr(r[1])


def _explore_random_funnel(ctx, bban, fc, cc, use_registry):
    from .. import ops
    from ..interp import CannotEvaluate, PathLimit
    from ..values import ClsRef
    from .c13 import choice_reps
    it = ctx.facts.interp(max_paths=6000)
    it.no_split = 1
    it.retry_loop_cap = 2
    it.dedupe_sites = True
    it.choice_reps = choice_reps

    def through(it_, args, kwargs, node):
        del it_.intrinsics[fc.qualname]
        try:
            res = it_.call_func(fc, args, kwargs, node)
        finally:
            it_.intrinsics[fc.qualname] = through
        if isinstance(res, Obj):
            it_.event("fc_result", oid=res.oid)
        return res

    it.intrinsics[fc.qualname] = through
    try:
        return [o for o in it.explore(lambda: it.call(it.getattr(ClsRef(bban), "random"), [cc], dict(random=ops.RandVal(True), use_registry=use_registry)))
                if o.kind != "infeasible"]
    except (CannotEvaluate, PathLimit) as e:
        raise AnalysisError(f"cannot evaluate BBAN.random({cc!r}): {e}")


def _own_nodes(fnode):
    """Nodes of a function body without the bodies of nested functions / lambdas (their returns are not its returns)."""
    import ast
    out, stack = [], list(ast.iter_child_nodes(fnode))
    while stack:
        n = stack.pop()
        if isinstance(n, (ast.FunctionDef, ast.AsyncFunctionDef, ast.Lambda)):
            continue
        out.append(n)
        stack.extend(ast.iter_child_nodes(n))
    return out


def _under_no_positions(fn, ret):
    """Is ``ret`` inside an `if "positions" not in spec:` branch?"""
    import ast
    for n in ast.walk(fn):
        if isinstance(n, ast.If) and any(x is ret for b in n.body for x in ast.walk(b)):
            t = ast.unparse(n.test)
            if "positions" in t and "not in" in t:
                return True
    return False
