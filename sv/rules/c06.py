"""C06 — national check digits are judged by the country's published algorithm."""
from __future__ import annotations

import ast

from ..algo_eval import (Evaluator, accepts_of, all_values_agreement, component_value, country_fields, explore_method, is_library_exc, probes,
                         struct_positions)
from ..interp import CannotEvaluate, PathLimit
from ..srcmodel import AnalysisError, Func
from ..tables import national as NAT
from ..values import AStr, ABag, CharSet, Obj, VSet, is_abstract


def result_lengths(v):
    if isinstance(v, str):
        return {len(v)}
    if isinstance(v, AStr):
        return {len(v)}
    if isinstance(v, CharSet):
        return {1}
    if isinstance(v, VSet):
        return {len(x) if isinstance(x, str) else -1 for x in v.vals}
    if isinstance(v, ABag):
        return set(range(v.lo, v.hi + 1))
    return {-1}


def run(ctx, report):
    from .premises import accessor_entries, stateless_premise
    stateless_premise(ctx, report, 'R06-P1-stateless', ['national'], extra=None, stop=(), outside=("schwifty.iban", "schwifty.bic"))
    prog = ctx.program
    facts = ctx.facts
    reg = ctx.registry
    report.explanation = (
        "Registrations are obtained by evaluating every decorator application of schwifty.checksum.*; the set of countries, "
        "the fields each algorithm reads, the width of what it computes and its results on a probe family that varies every "
        "accepted position over its whole class are compared with independent reference implementations; the BBAN-level "
        "check is explored abstractly per country (returns True or raises the library's checksum error)."
    )
    regs = facts.registrations()
    national = [r for r in regs if r.prefix != "DE"]
    report.analysed = {"registrations": len(regs), "national": sorted(r.key for r in national)}

    # ------------------------------------------------------------------ R06-reg
    r_reg = report.rule("R06-reg", floor=22, what="registered countries = the 22 countries of the statement; each is in the table; no key twice")
    seen = {}
    for r in regs:
        if r.key in seen:
            r_reg.finding(f"register:{r.key}", f"key {r.key!r} is registered by {seen[r.key].cls.qualname} and {r.cls.qualname}; module import order "
                          "(an unsorted glob) decides which one survives", r.where)
        seen[r.key] = r
    for r in national:
        r_reg.instance({"key": r.key, "class": r.cls.qualname})
        if r.name != "default":
            r_reg.finding(f"register:{r.key}", f"national algorithm registered under name {r.name!r}; only '<country>:default' is ever looked up "
                          "for non-German banks", r.where)
        if r.prefix not in reg.countries:
            r_reg.finding(f"register:{r.prefix}", f"algorithm {r.cls.qualname} is registered for {r.prefix!r}, which is not a country of the table "
                          "(its check digits are never checked for any real country)", r.where)
    have = {r.prefix for r in national if r.name == "default"}
    for cc in NAT.C22:
        if cc not in have:
            r_reg.finding(f"missing:{cc}", f"no national algorithm is registered for {cc}; its national check digits are accepted unchecked", None)
    for cc in sorted(have - set(NAT.C22)):
        if cc in reg.countries:
            r_reg.finding(f"extra:{cc}", f"a national algorithm is registered for {cc}, which the property lists as unaffected by national validation", seen[f"{cc}:default"].where)

    # ------------------------------------------------------------------ R06-dispatch
    r_disp = report.rule("R06-dispatch", floor=15, what="every registered key is '<country>:<name>'; compute_national_checksum reaches the registered algorithm of each country (by evaluation)")
    _dispatch(ctx, r_disp, national)

    # ------------------------------------------------------------------ per country: fields, fit, table, BBAN-level check
    r_fields = report.rule("R06-fields", floor=20, what="each field an algorithm reads is published for the country (or provably neutral)")
    r_fit = report.rule("R06-fit", floor=17, what="width of the computed check digits = width of the country's check-digit field")
    r_tab = report.rule("R06-table", floor=20, what="results on the probe family equal the reference implementation")
    r_true = report.rule("R06-true", floor=20, what="BBAN-level check returns True or raises InvalidBBANChecksum, nothing else")
    r_verdict = report.rule("R06-bban-verdict", floor=20, what="BBAN.validate_national_checksum accepts a BBAN exactly when its check digits are the reference ones (probe BBANs, both polarities)")
    from ..par import replay, run_recorded_async
    names = ["R06-fields", "R06-fit", "R06-table", "R06-true", "R06-bban-verdict"]
    real = {"R06-fields": r_fields, "R06-fit": r_fit, "R06-table": r_tab, "R06-true": r_true, "R06-bban-verdict": r_verdict}
    bban_cls = prog.get("schwifty.bban.BBAN")
    todo = sorted(national, key=lambda x: x.key)
    # the per-country work runs in forked workers while this process builds the validator model below
    facts.algorithm_table()
    facts.tree_banks()
    pending = run_recorded_async(names, lambda r, rules: _country(ctx, r, rules), todo)
    from ..vmodel import IbanModel
    from .. import iban_rules as IR
    m = IbanModel(ctx, with_validate=True)
    for recs, _ in pending.get():
        replay(real, recs)
    # a country without algorithm: returns True without raising
    other = next((c for c in sorted(reg.countries) if c not in have and struct_positions(reg, c) and reg.positions(c)), None)
    if other:
        _bban_level(ctx, r_true, other, struct_positions(reg, other), bban_cls, None)

    # ------------------------------------------------------------------ R06-mono / R06-flag (validator decision model)
    IR.rule_accept(m, report, "R06-flag-on", entries=[("init_bban", True), ("validate_bban", True)])
    IR.rule_accept(m, report, "R06-flag-off", entries=[("init", False), ("validate", False)])
    report.analysed["validator_paths"] = {k: len(v) for k, v in m.paths.items()}

    report.not_decided += [
        "equivalence with the national specifications beyond the probe family: quick tier - every accepted position varied over its class from a base vector, plus pseudo-random fills; "
        "thorough tier - additionally every pair of accepted positions varied jointly (all digit / letter values; alphanumeric positions over 11 representative values). "
        "A special case keyed on three or more positions at once (two in the quick tier) is outside it",
    ]
    report.trusted.append("sv/tables/national.py (reference algorithms)")


def _country(ctx, r, rules):
    """Everything decided per country (runs in a forked worker; rules are recording stand-ins)."""
    prog, facts, reg = ctx.program, ctx.facts, ctx.registry
    r_fields, r_fit, r_tab, r_true, r_verdict = (rules[n] for n in ("R06-fields", "R06-fit", "R06-table", "R06-true", "R06-bban-verdict"))
    ev = Evaluator(facts)
    bban_cls = prog.get("schwifty.bban.BBAN")
    cc = r.prefix
    if cc not in reg.countries or r.name != "default":
        return
    it = facts.interp()
    obj = it.instantiate(r.cls, [], {}, None)
    acc = accepts_of(it, obj)
    fields = country_fields(reg, cc)
    undefined = [c for c in acc if c not in fields]
    r_fields.instance({"country": cc, "accepts": acc, "undefined": undefined})
    # the ranges the table gives for the fields the algorithm reads / fills are those the published algorithm is defined over
    pinned = NAT.FIELD_POSITIONS.get(cc, {})
    for c in list(acc) + (["national_checksum_digits"] if cc in NAT.COMPUTE else []):
        if c in fields and c in pinned and tuple(fields[c][:2]) != tuple(pinned[c]):
            r_fields.finding(f"{cc}:{c}.range", f"the table places {cc}.{c} at {list(fields[c][:2])}; the algorithm registered for {cc} is defined over BBAN positions "
                             f"{list(pinned[c])} for that field (a shifted range feeds it other digits of the account number)", None,
                             witness={"country": cc, "field": c, "table": list(fields[c][:2]), "algorithm": list(pinned[c])})
    if len(undefined) == len(acc):
        r_fields.finding(f"{cc}:accepts", f"{r.cls.qualname} reads {acc} but {cc} publishes none of them", r.where)
        return
    comps_v = [component_value(reg, cc, c) for c in acc]
    exp_v = component_value(reg, cc, "national_checksum_digits")
    # abstract exploration of validate: exceptions
    _, outs = explore_method(facts, r, "validate", lambda it_, o: [list(comps_v), exp_v])
    bad = [o for o in outs if o.kind == "raise" and not is_library_exc(prog, o.value)]
    if bad:
        e = bad[0].value
        r_fields.finding(f"{cc}:validate-raises", f"{r.cls.qualname}.validate can raise {e.name} at {e.where} on a structure-conforming {cc} BBAN"
                         + (f" (undefined field(s) {undefined} are passed as '')" if undefined else ""), r.where)
    # fit
    if cc in NAT.COMPUTE:
        _, couts = explore_method(facts, r, "compute", lambda it_, o: [list(comps_v)])
        lens = set()
        for o in couts:
            if o.kind == "return":
                lens |= result_lengths(o.value)
        want = fields.get("national_checksum_digits")
        r_fit.instance({"country": cc, "computed widths": sorted(lens), "field": want[:2] if want else None})
        if want is None:
            r_fit.finding(f"{cc}:field", f"{cc} computes national check digits but publishes no national_checksum_digits field", r.where)
        else:
            w = want[1] - want[0]
            if lens != {w}:
                r_fit.finding(f"{cc}:width", f"{r.cls.qualname}.compute yields strings of length(s) {sorted(lens)}, the {cc} check-digit field is {w} wide "
                              "(placing it shifts or truncates the BBAN)", r.where)
    # table: probes
    ref = NAT.COMPUTE.get(cc)
    vref = NAT.VERDICT.get(cc)
    if ref is None and vref is None:
        # registered for a country outside the 22 (already reported by R06-reg): no reference to compare with
        return
    n = 0
    mism = None
    computed = []
    for p in probes(fields, acc, ctx.seed, n_random=600 if ctx.tier == "thorough" else 24, pairs=ctx.tier == "thorough"):
        if mism is not None:
            break
        args = [p.get(c, "") for c in acc]
        n += 1
        if ref is not None:
            want = ref(p)
            got = ev.call(r.cls, "compute", [args])
            if got[0] == "ret" and isinstance(got[1], str):
                computed.append((p, args, got[1]))
            if want is None:
                ok = got[0] == "exc" and is_library_exc(prog, got[1])
            else:
                ok = got == ("ret", want)
            if not ok and mism is None:
                mism = (p, "compute", got, want)
        else:
            want = vref(p)
            got = ev.call(r.cls, "validate", [args, p.get("national_checksum_digits", "")])
            if got != ("ret", want) and mism is None:
                mism = (p, "validate", got, want)
    if mism is None and computed:
        # the verdict side: exactly the published digits are accepted among all values of the field
        extra, mm = all_values_agreement(ev, r.cls, acc, computed)
        n += extra
        if mm is not None:
            mism = (mm[0], "validate", ("ret", mm[1]), "acceptance of exactly the computed check digits")
    r_tab.instance({"country": cc, "probes": n}, n=1)
    if mism is not None:
        p, meth, got, want = mism
        shown = got[1] if got[0] == "ret" else f"raises {got[1].name}"
        r_tab.finding(f"{cc}:{meth}", f"{r.cls.qualname}.{meth} gives {shown!r} for {cc} fields {_fmt(p, acc)}, the published algorithm gives "
                      f"{'no valid check digit (library error)' if want is None else repr(want)}", r.where, witness=_fmt(p, acc))
    # BBAN-level check
    st = struct_positions(reg, cc)
    _bban_level(ctx, r_true, cc, st, bban_cls, r)
    _bban_verdicts(ctx, r_verdict, cc, fields, acc, bban_cls, ref, vref)



def _fmt(p, acc):
    return {c: p.get(c, "") for c in acc + ["national_checksum_digits"] if c in p}


def _dispatch(ctx, rule, national):
    """Writer and reader of the algorithm table agree: every registered key has the form '<country>:<name>', and for every country
    with a registered default algorithm the generation-side reader (compute_national_checksum) is evaluated on a concrete field
    assignment and must hand the fields to that algorithm's compute.  (The validation-side reader is covered per country by
    R06-true: 'never consults the algorithm'.)  Decided by evaluation, not by the spelling of the key expression."""
    import re
    prog = ctx.program
    facts = ctx.facts
    reg = ctx.registry
    keys = [r.key for r in facts.registrations()]
    rule.instance({"writer keys": keys[:4], "count": len(keys)})
    for r in facts.registrations():
        if not isinstance(r.key, str) or not re.fullmatch(r"[A-Z]{2}:[0-9A-Za-z_]+", r.key):
            rule.finding(f"register:{r.key}", f"algorithm registered under {r.key!r}; the table is keyed '<country>:<name>'", r.where)
    fn = prog.get("schwifty.bban.compute_national_checksum")
    for r in sorted(national, key=lambda x: x.key):
        cc = r.prefix
        if r.name != "default" or cc not in reg.countries or cc not in NAT.COMPUTE:
            continue
        it = facts.interp()
        it.no_split = 1
        obj = it.instantiate(r.cls, [], {}, None)
        acc = accepts_of(it, obj)
        fields = country_fields(reg, cc)
        p = next(iter(probes(fields, acc, ctx.seed, n_random=0)))
        comps = {c: p.get(c, "") for c in set(fields) | set(acc)}
        try:
            outs = it.explore(lambda: it.call_func(fn, [cc, dict(comps)], {}, None), max_paths=64)
        except (CannotEvaluate, PathLimit) as e:
            raise AnalysisError(f"cannot evaluate compute_national_checksum({cc!r}, ...): {e}")
        consulted = False
        for o in outs:
            for e in o.events:
                f = getattr(e.get("callee"), "func", None) if e["kind"] == "call" else None
                if f is not None and f.name == "compute" and f.cls is not None and f.cls in r.cls.mro(prog):
                    consulted = True
        rule.instance({"reader": fn.short, "country": cc, "reaches": f"{r.cls.short}.compute" if consulted else None})
        if not consulted:
            rule.finding(f"{fn.short}.key:{cc}", f"{fn.short}({cc!r}, ...) never reaches {r.cls.qualname}.compute, which is registered for {cc} "
                         f"(registered as {r.key!r}): generated {cc} BBANs carry no computed national check digits", fn.where)


def _bban_level(ctx, rule, cc, st, bban_cls, r):
    from ..values import DIGITS
    from ..algo_eval import CLASS_CHARS
    facts = ctx.facts
    prog = ctx.program
    it = facts.interp(max_paths=30000)
    it.no_split = 1
    bval = AStr.make([CLASS_CHARS[c] for c in st])
    _install_bank_model(it, ctx, cc)

    def thunk():
        obj = Obj(bban_cls, strval=bval)
        obj.attrs["country_code"] = cc
        return it.call(it.getattr(obj, "validate_national_checksum"), [], {})

    try:
        outs = it.explore(thunk)
    except (CannotEvaluate, PathLimit) as e:
        raise AnalysisError(f"cannot evaluate BBAN.validate_national_checksum for {cc}: {e}")
    rets = set()
    excs = {}
    consulted = False
    unconsulted_with = None
    for o in outs:
        if o.kind == "return":
            rets.add(repr(o.value))
        elif o.kind == "raise":
            excs[o.value.name] = o.value
        here = False
        entry = "unset"
        for e in o.events:
            if e["kind"] == "call" and getattr(e["callee"], "func", None) is not None and e["callee"].func.name == "validate":
                consulted = here = True
            if e["kind"] == "bank_option":
                entry = e["entry"]
        if o.kind == "return" and not here and entry != "unset" and unconsulted_with is None:
            unconsulted_with = entry
    rule.instance({"country": cc, "returns": sorted(rets), "raises": sorted(excs), "paths": len(outs)})
    f = prog.get("schwifty.bban.BBAN.validate_national_checksum")
    if rets - {"True"}:
        rule.finding("BBAN.validate_national_checksum:return", f"BBAN.validate_national_checksum can return {sorted(rets - {'True'})} "
                     f"(e.g. for a {cc} BBAN that passes its national check); success must be reported as True", f.where, witness=f"any nationally valid {cc} BBAN")
    for name, e in excs.items():
        if not is_library_exc(prog, e):
            rule.finding(f"{cc}:raises:{name}", f"BBAN.validate_national_checksum can raise {name} at {e.where} for a structure-conforming {cc} BBAN", f.where)
    if r is not None:
        if not consulted:
            rule.finding(f"{cc}:unchecked", f"BBAN.validate_national_checksum never consults the algorithm registered for {cc}", f.where)
        elif unconsulted_with is not None and cc != "DE":
            # outside Germany no bank entry names a method: whether or not the bank is listed, the country's algorithm decides
            which = "an unlisted bank" if unconsulted_with is None else f"the listed bank {unconsulted_with.get('bank_code')!r} (checksum_algo: {unconsulted_with.get('checksum_algo', '<absent>')!r})"
            rule.finding(f"{cc}:unchecked-listed", f"BBAN.validate_national_checksum accepts a {cc} BBAN of {which} without consulting the algorithm registered for {cc}", f.where)
        if "InvalidBBANChecksum" not in excs and not any(not isinstance(e.cls, str) for e in excs.values()):
            rule.finding(f"{cc}:never-rejects", f"the BBAN-level check cannot reject any {cc} BBAN", f.where)


def _other_digits(d):
    if d.isdigit():
        return f"{(int(d) + 1) % (10 ** len(d)):0{len(d)}d}"
    return "".join(chr((ord(c) - 65 + 1) % 26 + 65) if c.isalpha() else c for c in d)


def _bban_verdicts(ctx, rule, cc, fields, acc, bban_cls, ref, vref):
    """Concrete BBANs assembled from probe fields, judged through BBAN.validate_national_checksum."""
    facts = ctx.facts
    prog = ctx.program
    reg = ctx.registry
    it = facts.interp()
    bank = prog.get("schwifty.bban.BBAN").methods.get("bank")
    it.intrinsics[bank.qualname] = lambda it_, a, k, n: None
    n = reg.countries[cc]["bban_length"]
    nat = fields.get("national_checksum_digits")
    cases = []
    for i, p in enumerate(probes(fields, acc, ctx.seed, n_random=6)):
        if i % 9 and i > 3:
            continue
        if ref is not None:
            want = ref(p)
            if nat is None:
                continue
            if want is None:
                cases.append((dict(p), False))
            else:
                q = dict(p); q["national_checksum_digits"] = want
                cases.append((q, True))
                q2 = dict(p); q2["national_checksum_digits"] = _other_digits(want)
                cases.append((q2, False))
        else:
            cases.append((dict(p), bool(vref(p))))
    bad = None
    for p, want in cases:
        text = ["0"] * n
        for c, (a, b, _) in fields.items():
            v = p.get(c, "")
            if len(v) == b - a:
                text[a:b] = list(v)
        text = "".join(text)

        def thunk():
            obj = Obj(bban_cls, strval=text)
            obj.attrs["country_code"] = cc
            return it.call(it.getattr(obj, "validate_national_checksum"), [], {})

        try:
            outs = [o for o in it.explore(thunk, max_paths=50) if o.kind != "infeasible"]
        except (CannotEvaluate, PathLimit) as e:
            raise AnalysisError(f"cannot evaluate BBAN.validate_national_checksum on {cc} {text}: {e}")
        if len(outs) != 1:
            raise AnalysisError(f"BBAN.validate_national_checksum is not deterministic on {cc} {text}")
        o = outs[0]
        got = True if (o.kind == "return" and o.value is True) else (False if (o.kind == "raise" and is_library_exc(prog, o.value)) else None)
        if got is not want and bad is None:
            shown = "accepted" if got is True else ("rejected" if got is False else (f"raises {o.value.name}" if o.kind == "raise" else f"returns {o.value!r}"))
            bad = (text, want, shown)
    rule.instance({"country": cc, "BBANs judged": len(cases)})
    if bad:
        rule.finding(f"{cc}:bban-verdict", f"{cc}: BBAN {bad[0]} is {bad[2]} by BBAN.validate_national_checksum; by the published algorithm it is "
                     f"{'valid' if bad[1] else 'invalid'}", prog.get("schwifty.bban.BBAN.validate_national_checksum").where, witness=bad[0])


def _install_bank_model(it, ctx, cc):
    """Model of BBAN.bank during national validation: None, or one representative registry entry per
    distinct ``checksum_algo`` value of the country's entries (C12 ties .bank to the registry)."""
    prog = ctx.program
    bank = prog.get("schwifty.bban.BBAN").methods.get("bank")
    if bank is None:
        raise AnalysisError("anchor vanished: BBAN.bank")
    reps = {}
    for e in ctx.facts.tree_banks():
        if isinstance(e, dict) and e.get("country_code") == cc:
            # one representative per (has the field, value): an entry without the field and one carrying an empty value differ
            reps.setdefault(("checksum_algo" in e, repr(e.get("checksum_algo"))), e)
    options = [None] + [reps[k] for k in sorted(reps)]

    def model(it_, args, kwargs, node):
        c = it_.choose(len(options), "bank entry")
        it_.event("bank_option", entry=options[c])
        return options[c]

    it.intrinsics[bank.qualname] = model
