"""C05 — validation is total and its errors name a defect that is really present."""
from __future__ import annotations

from ..relang import DFA
from ..algo_eval import is_library_exc
from ..vmodel import BicModel, IbanModel, holds
from .. import iban_rules as R


def run(ctx, report):
    from .premises import accessor_entries, stateless_premise
    stateless_premise(ctx, report, 'R05-P1-stateless', ['iban-validate', 'bic-validate', 'national'], extra=None, stop=())
    # national validation: every algorithm registered for any country (and every German method) on structure-conforming BBANs;
    # runs in forked workers while this process builds the validator models
    from ..algo_eval import struct_positions
    from ..par import replay, run_recorded_async
    from .c06 import _bban_level
    prog = ctx.program
    bban_cls = prog.get("schwifty.bban.BBAN")
    # every country of the table, not only those with a registered algorithm: which algorithm (if any) judges a country is the
    # tree's decision (a fallback to another country's algorithm must not let foreign exceptions escape either)
    todo = [cc for cc in sorted(ctx.registry.countries) if struct_positions(ctx.registry, cc) is not None]
    ctx.facts.algorithm_table()
    ctx.facts.tree_banks()
    pending = run_recorded_async(["R05-national"], lambda cc, rules: _bban_level(ctx, rules["R05-national"], cc, struct_positions(ctx.registry, cc), bban_cls, None), todo)
    m = IbanModel(ctx, with_validate=True, falsy_flag=True)
    b = BicModel(ctx)
    report.explanation = (
        "Exception-escape analysis by exhaustive symbolic path enumeration of IBAN/BIC __init__, validate() and is_valid (all flag values): every path ends in "
        "return or raise with the regular language of the texts taking it; partial operations inside per-character helpers are summarised per character "
        "class (including non-ASCII digits). A non-library exception on any path is reported with a shortest witness text. The three entry points are "
        "compared as languages; each raised class is checked against the defect language it names."
    )
    R.analysed(m, report)
    report.analysed["bic_paths"] = {k: len(v) for k, v in b.paths.items()}
    R.rule_escape(m, report, "R05-escape-iban", "IBAN")
    R.rule_escape(b, report, "R05-escape-bic", "BIC")
    R.rule_isvalid(m, report, "R05-isvalid-iban", "IBAN")
    R.rule_isvalid(b, report, "R05-isvalid-bic", "BIC")
    R.rule_funnel(m, report, "R05-funnel-iban", "IBAN", [("init", "validate", "is_valid", "init_none"), ("init_bban", "validate_bban")])
    R.rule_funnel(b, report, "R05-funnel-bic", "BIC", [("init", "validate", "is_valid"), ("init_swift", "validate_swift")])
    R.rule_class_iban(m, report, "R05-class-iban")
    _class_bic(b, report)
    r_nat = report.rule("R05-national", floor=100, what="BBAN-level national validation raises nothing but library exceptions, for every country of the table (abstract structure-conforming BBANs)")
    for recs, _ in pending.get():
        replay({"R05-national": r_nat}, recs)
    report.not_decided += ["accuracy of the message texts; which of several simultaneous defects is reported (any present defect satisfies the statement)",
                           "the national check is an opaque verdict inside the symbolic validator model; its own exceptions are decided by R05-national on abstract structure-conforming BBANs"]


def _class_bic(b, report):
    r = report.rule("R05-class-bic", floor=6, what="BIC: the class of every validation error names a defect present in the text")
    atoms = b.all_atoms()
    seen = set()
    for key, paths in b.paths.items():
        strict = key.endswith("swift")
        for p in paths:
            if p.kind != "raise" or not is_library_exc(b.prog, p.value):
                continue
            e = p.value
            r.instance({"entry": key, "raises": e.name})
            sem = {}
            for a, val in p.atoms.items():
                k, d = atoms[a]
                sem[k] = sem.get(k, True) and holds(k, d, val)
            bad, why = None, ""
            if e.name == "InvalidLength":
                bad, why = p.lang.intersect(b.len_ok), "the text is 8 or 11 characters long"
            elif e.name == "InvalidStructure":
                bad, why = p.lang.intersect(b.spec[strict]), "the text conforms to the ISO 9362 structure"
            elif e.name == "InvalidCountryCode":
                if sem.get("known") is not False:
                    bad, why = p.lang, "the country lookup did not fail on this path"
            else:
                bad, why = p.lang, f"{e.name} is not one of the documented BIC errors"
            if bad is not None and not bad.is_empty():
                c = f"BIC.{key}:{e.name}"
                if c not in seen:
                    seen.add(c)
                    r.finding(c, f"{e.name} is raised at {e.where} although {why}", e.where, witness=b.witness(bad))
