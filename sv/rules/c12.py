"""C12 — bank-code <-> BIC lookups agree with the bundled registry and with each other."""
from __future__ import annotations

import ast
import copy
import random

from ..algo_eval import is_library_exc
from ..interp import CannotEvaluate, PathLimit
from ..intrinsics import const_str, build_index_data, index_specs
from ..srcmodel import AnalysisError, Func
from ..values import ClsRef, Obj
from .c17 import iso3166_codes


def _e(cc, code, bic, primary=True, name="Bank", short="B"):
    return {"country_code": cc, "bank_code": code, "bic": bic, "name": name, "short_name": short, "primary": primary}


FIXTURE = [
    _e("DE", "10000000", "MARKDEF1100", name="Bundesbank", short="BBk"),
    _e("DE", "20000000", "AAAADEFFXXX", primary=False, name="n1"), _e("DE", "20000000", "BBBBDEFF", primary=False, name="n2"),
    _e("DE", "20000000", "CCCCDEFF123", primary=True, name="n3"),
    _e("DE", "30000000", "DDDDDEFF111", primary=False), _e("DE", "30000000", "EEEEDEFFXXX", primary=False), _e("DE", "30000000", "FFFFDEFF222", primary=True),
    _e("DE", "40000000", "GGGGDEFF111", primary=False), _e("DE", "40000000", "HHHHDEFF222", primary=False),
    _e("DE", "50000000", "", primary=True), _e("DE", "50000000", None, primary=False),
    _e("DE", "60000000", "", primary=True), _e("DE", "60000000", "IIIIDEFF", primary=False),
    _e("DE", "70000000", "JJJJDEFF", primary=False), _e("DE", "70000000", "KKKKDEFF", primary=True), _e("DE", "70000000", "LLLLDEFFXXX", primary=True),
    _e("DE", "", "MMMMDEFF"), _e("NL", "ABNA", "ABNANL2A"), _e("NL", "ABNA", "ABNANL2AXXX", primary=False),
    _e("DE", "80000000", "MARKDEF1100", name="Zweite", short="Z"),
    _e("DE", "00000000", "NULLDEFF", name="Zero code"), _e("BE", "000", "ZEROBEBB", name="Zero BE"),
]


def reference_choice_ok(cands, chosen):
    """C12: the chosen BIC is a candidate; an 8-character one if any, else one with branch XXX, else the first."""
    if chosen not in cands:
        return False
    if len(cands) == 1:
        return True
    if any(len(c) == 8 for c in cands):
        return len(chosen) == 8
    if any(c[8:11] == "XXX" for c in cands):
        return chosen[8:11] == "XXX"
    return chosen == cands[0]


class Harness:
    def __init__(self, ctx, banks):
        self.ctx = ctx
        self.prog = ctx.program
        facts = ctx.facts
        self.specs = index_specs(facts)
        self.it = facts.interp()
        self.banks = banks
        iso, _ = iso3166_codes()
        # registry model over the given bank list (indexes built by the checker's own builder from the tree's build_index calls)
        data = {"bank": banks}

        class _F:  # minimal facts-like holder for build_index_data
            pass
        from ..datamodel import Registry
        fake = _F()
        fake.ctx = _F()
        fake.ctx.registry = _F()
        fake.ctx.registry.banks = banks
        for name, spec in self.specs.items():
            data[name] = build_index_data(fake, spec)
        self.data = data
        table = facts.iban_table()

        def r_get(it_, args, kwargs, node):
            name = args[0]
            if name == "iban":
                return table
            if name in data:
                return data[name]
            it_.may_raise("ValueError", node, f"Failed to load registry {name}", certain=True)

        self.it.intrinsics["schwifty.registry.get"] = r_get
        self.it.ext_hooks = {"pycountry.countries.get": lambda it_, a, k, n: ({"alpha_2": k.get("alpha_2")} if k.get("alpha_2") in iso else None)}
        self.bic = self.prog.get("schwifty.bic.BIC")
        self.iban = self.prog.get("schwifty.iban.IBAN")

    def run(self, thunk, what):
        try:
            outs = [o for o in self.it.explore(thunk, max_paths=64) if o.kind != "infeasible"]
        except (CannotEvaluate, PathLimit) as e:
            raise AnalysisError(f"cannot evaluate {what}: {e}")
        if len(outs) != 1:
            raise AnalysisError(f"{what} is not deterministic on concrete data ({len(outs)} paths)")
        o = outs[0]
        return ("ret", o.value) if o.kind == "return" else ("exc", o.value)

    def candidates(self, cc, code):
        it = self.it
        r = self.run(lambda: it.call(it.getattr(ClsRef(self.bic), "candidates_from_bank_code"), [cc, code], {}), "BIC.candidates_from_bank_code")
        if r[0] == "ret":
            return ("ret", [x.strval if isinstance(x, Obj) else x for x in r[1]])
        return r

    def from_bank_code(self, cc, code):
        it = self.it
        r = self.run(lambda: it.call(it.getattr(ClsRef(self.bic), "from_bank_code"), [cc, code], {}), "BIC.from_bank_code")
        if r[0] == "ret":
            return ("ret", r[1].strval if isinstance(r[1], Obj) else r[1])
        return r

    def reverse(self, bic):
        it = self.it

        def thunk():
            obj = Obj(self.bic, strval=bic)
            return (it.getattr(obj, "domestic_bank_codes"), it.getattr(obj, "bank_names"), it.getattr(obj, "bank_short_names"), it.getattr(obj, "exists"))

        return self.run(thunk, "BIC reverse lookup")

    def iban_lookup(self, cc, bban):
        it = self.it
        text = cc + "00" + bban

        def thunk():
            obj = Obj(self.iban, strval=text)
            init = self.iban.lookup(self.prog, "__init__")
            it.call_func(init[2], [obj, text], {"allow_invalid": True}, None)
            b = it.getattr(obj, "bic")
            return (b.strval if isinstance(b, Obj) else b, it.getattr(obj, "bank"), it.getattr(obj, "bank_name"), it.getattr(obj, "bank_short_name"))

        return self.run(thunk, "IBAN bank lookups")


def check_registry(ctx, report, h, keys, bics, label, r_c, r_s, r_i, r_b):
    prog = ctx.program
    reg = ctx.registry
    by_key = {}
    for e in h.banks:
        if e["country_code"] and e["bank_code"]:
            by_key.setdefault((e["country_code"], e["bank_code"]), []).append(e)
    by_bic = {}
    for e in h.banks:
        if e["bic"]:
            by_bic.setdefault(e["bic"], []).append(e)
    bic_where = h.bic.where
    for cc, code in keys:
        entries = by_key.get((cc, code), [])
        want = [e["bic"] for e in sorted(entries, key=lambda e: not e["primary"]) if e["bic"]]
        got = h.candidates(cc, code)
        r_c.instance({"registry": label, "key": (cc, code), "candidates": want} if len(r_c.samples) < 4 else None)
        if not entries:
            if not (got[0] == "exc" and got[1].name == "InvalidBankCode"):
                r_c.finding(f"candidates:unlisted[{label}]", f"candidates_from_bank_code({cc!r}, {code!r}) for an unlisted pair gives {_show(got)}, expected InvalidBankCode",
                            bic_where, witness=(cc, code))
        elif got != ("ret", want):
            r_c.finding(f"candidates[{label}]", f"candidates_from_bank_code({cc!r}, {code!r}) gives {_show(got)}; the registry lists {want} (non-empty BICs, primary entries first, file order otherwise)",
                        bic_where, witness=(cc, code))
        sel = h.from_bank_code(cc, code)
        r_s.instance(None)
        if not want:
            if not (sel[0] == "exc" and sel[1].name == "InvalidBankCode"):
                r_s.finding(f"from_bank_code:none[{label}]", f"from_bank_code({cc!r}, {code!r}) with no listed BIC gives {_show(sel)}, expected InvalidBankCode", bic_where, witness=(cc, code))
        elif sel[0] != "ret" or not reference_choice_ok(want, sel[1]):
            r_s.finding(f"from_bank_code[{label}]", f"from_bank_code({cc!r}, {code!r}) chooses {_show(sel)} among {want}; the rule is: an 8-character candidate if any, else one with branch XXX, else the first",
                        bic_where, witness=(cc, code))
        # inversion
        for b in want:
            rv = h.reverse(b)
            r_i.instance(None)
            if rv[0] != "ret" or code not in rv[1][0] or rv[1][3] is not True:
                r_i.finding(f"inversion[{label}]", f"BIC {b!r} is a candidate for ({cc!r}, {code!r}) but its reverse lookup gives {_show(rv)} (must list the bank code and report that it exists)",
                            bic_where, witness=(cc, code, b))
                break
    for b in bics:
        entries = by_bic.get(b, [])
        rv = h.reverse(b)
        want = (sorted({e["bank_code"] for e in entries}), sorted({e["name"] for e in entries}), sorted({e["short_name"] for e in entries}), bool(entries))
        r_i.instance({"registry": label, "bic": b, "reverse": want} if len(r_i.samples) < 3 else None)
        if rv != ("ret", want):
            r_i.finding(f"reverse[{label}]", f"reverse lookup of {b!r} gives {_show(rv)}; the registry gives {want}", bic_where, witness=b)
    # IBAN-level lookups
    for cc, code in keys:
        spec = reg.countries.get(cc)
        if not spec or not spec.get("positions"):
            continue
        comps = spec.get("bic_lookup_components", ["bank_code"])
        n = spec["bban_length"]
        bban = ["0"] * n
        pos = 0
        ok = True
        for c in comps:
            rng = spec["positions"].get(c)
            if not rng:
                ok = False
                break
            w = rng[1] - rng[0]
            bban[rng[0]:rng[1]] = list(code[pos:pos + w])
            pos += w
        if not ok or pos != len(code) or len(bban) != n:
            continue
        bban = "".join(bban)
        res = h.iban_lookup(cc, bban)
        entries = by_key.get((cc, code), [])
        sel = h.from_bank_code(cc, code)
        want_bic = sel[1] if sel[0] == "ret" else None
        first = entries[0] if entries else None
        want = (want_bic, first, first["name"] if first else None, first["short_name"] if first else None)
        r_b.instance({"registry": label, "iban": cc + "00" + bban, "bic": want_bic} if len(r_b.samples) < 3 else None)
        if res != ("ret", want):
            r_b.finding(f"iban-lookup[{label}]", f"IBAN {cc}00{bban}: bic/bank/bank_name/bank_short_name give {_show(res)}; looking up its bank-identifying field {code!r} gives {want}",
                        h.iban.where, witness=cc + "00" + bban)


def _show(r):
    if r[0] == "exc":
        return f"raises {r[1].name}"
    s = repr(r[1])
    return s if len(s) < 240 else s[:240] + "..."


def run(ctx, report):
    from .premises import accessor_entries, stateless_premise
    stateless_premise(ctx, report, 'R12-P1-stateless', ['lookup'], extra=lambda prog, eff: accessor_entries(prog, eff, ("schwifty.bic.BIC",)), stop=(), without_national=True)
    prog = ctx.program
    facts = ctx.facts
    reg = ctx.registry
    report.explanation = (
        "The lookup functions are evaluated by the abstract evaluator against registry models whose indexes are built by the checker from the tree's own build_index calls: "
        "a synthetic registry that exercises every branch of the selection rule (several candidates, none without branch, only XXX, empty and null BICs, primary flags in file order, "
        "shared BICs, empty bank codes, unlisted pairs) and the bundled registry (all multi-candidate keys plus a seeded sample in the quick tier, every key and BIC in the thorough tier). "
        "Results are compared with the statement of C12; writer / reader agreement of index names and key order is checked on the call sites."
    )
    r_x = report.rule("R12-index", floor=6, what="indexes read at run time are built at import with the same name and key order, accumulating and unfiltered")
    specs = index_specs(facts)
    for name, spec in specs.items():
        r_x.instance({"index": name, "key": spec["key"], "accumulate": spec["accumulate"], "predicate": spec["predicate"]})
        if not spec["accumulate"]:
            r_x.finding(f"index:{name}", f"index {name!r} keeps one entry per key; banks sharing a key would shadow each other", f"{spec['module'].relpath}:{spec['node'].lineno}")
        if spec["predicate"]:
            r_x.finding(f"index:{name}", f"index {name!r} is filtered by {spec['predicate']}; lookups would miss the other entries", f"{spec['module'].relpath}:{spec['node'].lineno}")
    want_keys = {"bank_code": ("country_code", "bank_code"), "bic": "bic", "country": "country_code"}
    for name, key in want_keys.items():
        if name not in specs:
            r_x.finding(f"index:{name}", f"no index named {name!r} is built at import, but lookups read it", None)
        elif specs[name]["key"] != key:
            r_x.finding(f"index:{name}", f"index {name!r} is keyed by {specs[name]['key']!r}; readers look it up by {key!r}", f"{specs[name]['module'].relpath}:{specs[name]['node'].lineno}")
    # run-time readers
    for mod in prog.modules.values():
        for n in ast.walk(mod.tree):
            if isinstance(n, ast.Call) and isinstance(n.func, (ast.Name, ast.Attribute)):
                d = prog.resolve_expr(mod, n.func)
                if isinstance(d, Func) and d.qualname == "schwifty.registry.get" and n.args and const_str(prog, mod, n.args[0]) is not None:
                    nm = const_str(prog, mod, n.args[0])
                    r_x.instance({"reader": f"{mod.relpath}:{n.lineno}", "name": nm})
                    if nm not in specs and nm not in ("iban", "bank"):
                        r_x.finding(f"reader:{nm}", f"{mod.relpath}:{n.lineno} reads registry {nm!r}, which nothing builds", f"{mod.relpath}:{n.lineno}")

    r_c = report.rule("R12-cand", floor=20, what="candidates = the registry's non-empty BICs for the pair, primary first, InvalidBankCode when unlisted")
    r_s = report.rule("R12-select", floor=20, what="the chosen BIC is a candidate: 8-character if any, else branch XXX, else the first")
    r_i = report.rule("R12-inverse", floor=20, what="every candidate lists the bank code among its domestic bank codes and exists; reverse lookups equal the registry")
    r_b = report.rule("R12-iban", floor=10, what="an IBAN's bic / bank / names are what looking up its own bank-identifying fields yields (None when unlisted)")

    # synthetic registry
    h = Harness(ctx, copy.deepcopy(FIXTURE))
    keys = sorted({(e["country_code"], e["bank_code"]) for e in FIXTURE if e["country_code"] and e["bank_code"]}) + [("DE", "99999999"), ("XX", "1"), ("NL", "XXXX")]
    bics = sorted({e["bic"] for e in FIXTURE if e["bic"]}) + ["ZZZZDEFF"]
    check_registry(ctx, report, h, keys, bics, "synthetic", r_c, r_s, r_i, r_b)

    # bundled registry
    hb = Harness(ctx, reg.banks)
    by_key = reg.index_by_bank_code()
    multi = sorted(k for k, v in by_key.items() if len(v) > 1)
    allkeys = sorted(by_key)
    allbics = sorted(reg.index_by_bic())
    if ctx.tier == "thorough":
        keys_b, bics_b = allkeys, allbics
    else:
        rnd = random.Random(7919 * (ctx.seed + 1))
        keys_b = sorted(set(rnd.sample(multi, min(600, len(multi))) + rnd.sample(allkeys, min(1500, len(allkeys)))))
        bics_b = rnd.sample(allbics, min(600, len(allbics)))
    # bank codes that are all zeros are ordinary codes (five of them are listed): always included
    keys_b = sorted(set(keys_b) | {k for k in allkeys if set(k[1]) == {"0"}})
    # entries whose BIC or bank code is not in compact canonical form (white space, lower case, wrong length) are the ones a lookup can lose: always included
    import re as _re
    odd = {k for k, v in by_key.items() if any((e.get("bic") and not _re.fullmatch(r"[A-Z0-9]{8}([A-Z0-9]{3})?", e["bic"])) or not _re.fullmatch(r"[A-Z0-9]+", k[1]) for e in v)}
    keys_b = sorted(set(keys_b) | odd)
    bics_b = sorted(set(bics_b) | {b for b in allbics if not _re.fullmatch(r"[A-Z0-9]{8}([A-Z0-9]{3})?", b)})
    keys_b += [("DE", "00000001"), ("GB", "ZZZZ")]
    # the keys are independent: chunks of them are evaluated in forked workers, the recorded rule instances replayed in order
    from ..par import replay, run_recorded
    nchunks = 16 if len(keys_b) > 64 else 1
    chunks = [(keys_b[i::nchunks], bics_b[i::nchunks]) for i in range(nchunks)]
    hb.candidates(*keys_b[0])   # builds the index models before the fork
    real = {r.name: r for r in (r_c, r_s, r_i, r_b)}
    for recs, _ in run_recorded(list(real), lambda ch, rules: check_registry(ctx, report, hb, ch[0], ch[1], "bundled", rules[r_c.name], rules[r_s.name], rules[r_i.name], rules[r_b.name]), chunks):
        replay(real, recs, cap=12)
    report.analysed = {"synthetic_entries": len(FIXTURE), "bundled_keys_checked": len(keys_b), "bundled_keys_total": len(allkeys),
                       "bundled_bics_checked": len(bics_b), "bundled_bics_total": len(allbics), "exhaustive_over_bundled_data": ctx.tier == "thorough"}
    report.not_decided += ["which of several 8-character candidates is chosen (any satisfies the statement)",
                           "registry contents outside the synthetic registry and the bundled one are covered only through the branch coverage of the synthetic registry"]
