"""C01 — IBAN acceptance is exactly the ISO 13616 rule set over the bundled country table."""
from __future__ import annotations

from ..relang import DFA
from ..srcmodel import AnalysisError
from ..vmodel import IbanModel
from .. import iban_rules as R


def run(ctx, report):
    from .premises import accessor_entries, stateless_premise
    stateless_premise(ctx, report, 'R01-P1-stateless', ['iban-validate'], extra=None, stop=('schwifty.bban.BBAN.validate_national_checksum',), without_national=True, outside=("schwifty.bic",))
    # premise of the symbolic model below (it starts from the cleaned text): the object carries clean(raw), clean removes exactly the
    # whitespace and upper-cases.  A finding here means the statement's "after removing whitespace and upper-casing" is already broken.
    from .c10 import normalisation_rules
    try:
        normalisation_rules(ctx, report, "R01-P0")
    except AnalysisError as e:
        report.notes.append(f"normalisation premise not decided: {e}")
    m = IbanModel(ctx, with_validate=False)
    report.explanation = (
        "Every path through IBAN.__init__ and is_valid is enumerated symbolically (fork over the 126 table keys, all lengths); each path "
        "carries the regular language of texts taking it and a valuation of the opaque arithmetic conditions. Per country and per valuation "
        "the accepted language is compared as automata with country code + two digits + the structure classes; the arithmetic conditions are "
        "checked to be the ISO 7064 MOD 97-10 ones (constants and rearrangement evaluated from the opaque terms)."
    )
    R.analysed(m, report)
    R.rule_accept(m, report, "R01", entries=[("init", False), ("is_valid", False)])
    R.rule_arith(m, report, "R01-arith")
    R.rule_numerify(m, report, "R01-numerify")
    R.rule_ascii34(m, report, "R01-ascii34")
    report.not_decided += [
        "that CPython evaluates numeric % 97 correctly; equality of the bundled table with SWIFT's registry",
        "the number-theoretic identity that makes the computed digits leave remainder 1 (paper argument from the checked constants)",
    ]
    report.assumptions += ["texts are normalised by clean() before validation (decided by C10's rules)"]
