"""C18 — registry files compose in name order: deep later-wins merge, list concatenation, v2 expansion."""
from __future__ import annotations

import ast
import copy
import itertools
import random

from ..datamodel import deep_merge, expand_v2
from ..interp import CannotEvaluate, Interp, PathLimit
from ..srcmodel import AnalysisError, Func, dotted
from ..values import FuncRef

VALUES = [1, 2, "s", {"x": 1}, {"x": 2, "y": {"z": 1}}, {"y": {"z": 2, "w": 3}}, {}, None, [1, 2]]
ABSENT = object()


def docs_over(keys, values):
    for combo in itertools.product([ABSENT] + list(range(len(values))), repeat=len(keys)):
        yield {k: copy.deepcopy(values[i]) for k, i in zip(keys, combo) if i is not ABSENT}


def _run(it, thunk, what):
    try:
        outs = [o for o in it.explore(thunk, max_paths=200) if o.kind != "infeasible"]
    except (CannotEvaluate, PathLimit) as e:
        raise AnalysisError(f"cannot evaluate {what}: {e}")
    if len(outs) != 1:
        raise AnalysisError(f"{what} is not deterministic on concrete input ({len(outs)} paths)")
    return outs[0]


def fresh_interp(ctx):
    it = Interp(ctx.program)
    return it


def listing_order_independent(ctx):
    """registry.get evaluated on virtual directories handed out in three different listing orders gives one and the same result
    (dict registry of three conflicting files; list registry of three files).  Used by C13 to decide whether an un-`sorted(...)`
    directory listing is actually consumed in file-system order."""
    gf = ctx.program.module("schwifty.registry").defs.get("get")
    if not isinstance(gf, Func):
        raise AnalysisError("anchor vanished: schwifty.registry.get")
    dirs = [("iban", [("a_b.json", {"AA": {"x": 1}}), ("aZ.json", {"AA": {"x": 2}}), ("ab.json", {"AA": {"x": 3}, "BB": 1})]),
            ("bank", [("generated_zz.json", [{"k": 1}]), ("manual_aa.json", [{"k": 2}]), ("Manual_b.json", [{"k": 3}])])]
    for name, files in dirs:
        results = []
        for order in (lambda xs: sorted(xs), lambda xs: sorted(xs, reverse=True), lambda xs: sorted(xs)[1:] + sorted(xs)[:1]):
            it = fresh_interp(ctx)
            it.vfs = {("path", "schwifty", f"{name}_registry"): copy.deepcopy(files)}
            it.glob_order = order
            o = _run(it, lambda: it.call_func(gf, [name], {}, None), "registry.get on a virtual directory")
            results.append((o.kind, o.value if o.kind == "return" else o.value.name))
        if any(r != results[0] for r in results[1:]):
            return False
    return True


def run(ctx, report):
    prog = ctx.program
    regmod = prog.module("schwifty.registry")
    for name in ("get", "merge_dicts", "parse_v2", "build_index", "save", "has"):
        if not isinstance(regmod.defs.get(name), Func):
            raise AnalysisError(f"anchor vanished: schwifty.registry.{name}")
    report.explanation = (
        "registry.py is evaluated by the abstract evaluator against a virtual file system: merge_dicts on every pair of documents of a bounded shape space "
        "(scalar / dict / nested dict / list / null conflicts, present and absent keys), get() on directories of three dictionary files and of list files "
        "including a v2 file handed out by glob in non-sorted order, build_index on a list with empty and partially empty keys. Each result is compared with the "
        "composition stated by C18 (own implementation in datamodel.py); operands must stay unmodified. All readers of registry data are shown to go through registry.get."
    )
    seed = ctx.seed
    # ------------------------------------------------------------------ R18-merge / R18-pure
    r_m = report.rule("R18-merge", floor=2000, what="merge_dicts = recursive right-biased merge, on every pair of a bounded document space")
    r_p = report.rule("R18-pure", floor=2000, what="merge_dicts leaves both operands unmodified")
    it = fresh_interp(ctx)
    mf = regmod.defs["merge_dicts"]
    values = VALUES + ([0, "", False, {"x": {"deep": 1}}] if ctx.tier == "thorough" else [])
    docs = list(docs_over(["K1", "K2"], values))
    bad_m = bad_p = None
    n = 0
    for left in docs:
        for right in docs:
            l0, r0 = copy.deepcopy(left), copy.deepcopy(right)
            o = _run(it, lambda: it.call_func(mf, [left, right], {}, None), "merge_dicts")
            n += 1
            want = deep_merge(l0, r0)
            if (o.kind != "return" or o.value != want) and bad_m is None:
                bad_m = (l0, r0, o.value if o.kind == "return" else f"raises {o.value.name}", want)
            if (left != l0 or right != r0) and bad_p is None:
                bad_p = (l0, r0, copy.deepcopy(left), copy.deepcopy(right))
    r_m.instance({"pairs": n, "sample": {"left": docs[37], "right": docs[55]}}, n=n)
    r_p.instance({"pairs": n}, n=n)
    if bad_m:
        r_m.finding("merge_dicts", f"merge_dicts({bad_m[0]!r}, {bad_m[1]!r}) gives {bad_m[2]!r}; the deep later-wins merge is {bad_m[3]!r}", mf.where,
                    witness={"left": bad_m[0], "right": bad_m[1]})
    if bad_p:
        r_p.finding("merge_dicts:operands", f"merge_dicts modifies an operand: {bad_p[0]!r}, {bad_p[1]!r} become {bad_p[2]!r}, {bad_p[3]!r}", mf.where,
                    witness={"left": bad_p[0], "right": bad_p[1]})
    # deeper nesting (3 levels) on a sampled family
    rnd = random.Random(99991 * (seed + 1))
    deep_vals = VALUES + [{"y": {"z": {"q": 1}}}, {"y": {"z": {"q": 2, "r": 3}}}, {"y": 5}]
    for _ in range(300):
        left = {k: copy.deepcopy(rnd.choice(deep_vals)) for k in ("K1", "K2", "K3") if rnd.random() < 0.8}
        right = {k: copy.deepcopy(rnd.choice(deep_vals)) for k in ("K1", "K2", "K3") if rnd.random() < 0.8}
        l0, r0 = copy.deepcopy(left), copy.deepcopy(right)
        o = _run(it, lambda: it.call_func(mf, [left, right], {}, None), "merge_dicts")
        r_m.instance(None)
        if o.kind != "return" or o.value != deep_merge(l0, r0):
            r_m.finding("merge_dicts", f"merge_dicts({l0!r}, {r0!r}) gives {o.value!r}; the deep later-wins merge is {deep_merge(l0, r0)!r}", mf.where,
                        witness={"left": l0, "right": r0})
            break
        if left != l0 or right != r0:
            r_p.finding("merge_dicts:operands", f"merge_dicts modifies an operand ({l0!r}, {r0!r})", mf.where)
            break

    # ------------------------------------------------------------------ R18-get-dict: three files, adversarial listing order
    r_g = report.rule("R18-get", floor=100, what="get(): files in name order; dict registries deep-merged later-wins; list registries concatenated; v2 expanded")
    gf = regmod.defs["get"]
    small = [1, {"x": 1}, {"x": 2, "y": {"z": 1}}, {"y": {"z": 2}}, "s"]
    sdocs = list(docs_over(["AA", "BB"], small))
    trials = []
    for _ in range(120):
        trials.append([copy.deepcopy(rnd.choice(sdocs)) for _ in range(3)])
    # make sure order-sensitive triples are in
    trials.append([{"AA": {"x": 1}}, {"AA": {"x": 2}}, {"AA": {"x": 3}}])
    trials.append([{"AA": 1}, {"AA": {"x": 2}}, {"BB": 1}])
    first_bad = None
    for ti, docs3 in enumerate(trials):
        # the second name set orders differently by file name and by stem ('-' sorts before '.'): only the file name counts
        names = (["generated.json", "overwrite.json", "zz_local.json"], ["overwrite-local.json", "overwrite.json", "zz.json"],
                 ["Local.json", "generated.json", "overwrite.json"], ["a_b.json", "aZ.json", "ab.json"],
                 ["generated.json", "overwrite_2.json", "overwritev.json"])[ti % 5]
        # fifth set: a stem ending in "2" / in "v" is not a v2 file - only the stem suffix "v2" is
        # third / fourth sets: upper-case and '_' order differently by code point and case-insensitively; code-point order counts
        for order_name, order in (("reverse", lambda xs: sorted(xs, reverse=True)), ("rotated", lambda xs: sorted(xs)[1:] + sorted(xs)[:1])):
            itg = fresh_interp(ctx)
            itg.vfs = {("path", "schwifty", "iban_registry"): list(zip(names, copy.deepcopy(docs3))) + [("README.md", None)]}
            itg.glob_order = order
            o = _run(itg, lambda: itg.call_func(gf, ["iban"], {}, None), "registry.get on a virtual directory")
            want = None
            for _, d in sorted(zip(names, docs3)):
                want = copy.deepcopy(d) if want is None else deep_merge(want, d)
            r_g.instance({"files": names, "docs": docs3} if len(r_g.samples) < 2 else None)
            if (o.kind != "return" or o.value != want) and first_bad is None:
                first_bad = (docs3, order_name, o.value if o.kind == "return" else f"raises {o.value.name} at {o.value.where}", want, names)
    if first_bad:
        r_g.finding("get:dict", f"get('iban') over files {first_bad[4]} with contents {first_bad[0]!r} (directory listing order: {first_bad[1]}) gives {first_bad[2]!r}; "
                    f"name-order deep merge gives {first_bad[3]!r}", gf.where, witness={"docs": first_bad[0], "listing": first_bad[1]})
    # cached second call returns the same object
    itg = fresh_interp(ctx)
    itg.vfs = {("path", "schwifty", "iban_registry"): [("a.json", {"AA": 1})]}
    o1 = _run(itg, lambda: (itg.call_func(gf, ["iban"], {}, None), itg.call_func(gf, ["iban"], {}, None)), "registry.get twice")
    if o1.kind == "return" and o1.value[0] is not o1.value[1]:
        r_g.finding("get:cache", "two get() calls for the same registry return different objects (indexes and manipulated tables would diverge)", gf.where)

    # ------------------------------------------------------------------ list registries with a v2 file
    e = lambda cc, code, bic, **kw: dict({"country_code": cc, "bank_code": code, "bic": bic, "name": "n", "short_name": "s", "primary": True}, **kw)
    list_files = [
        ("generated_zz.json", [e("ZZ", "001", "AAAAZZ00", checksum_algo="09")]),   # entries need not carry the same fields
        ("manual_aa.json", [e("AA", "7", "BBBBAA00"), e("AA", "", "CCCCAA00")]),
        ("manual_dk.v2.json", {"entries": [{"country_code": "DK", "bic": "DDDDDK00", "name": "n", "short_name": "s", "bank_codes": ["0040", "0041"]},
                                            {"country_code": "DK", "bic": "", "name": "m", "short_name": "t", "primary": True, "bank_codes": ["0000"]}],
                               "expand_from": "bank_codes", "expand_into": "bank_code"}),
        ("manual_qq.json", [e("QQ", "9", "")]),
    ]
    want = []
    for fn, doc in sorted(list_files):
        want.extend(expand_v2(copy.deepcopy(doc), fn) if fn[:-5].endswith("v2") else copy.deepcopy(doc))
    for order_name, order in (("reverse", lambda xs: sorted(xs, reverse=True)), ("rotated", lambda xs: sorted(xs)[2:] + sorted(xs)[:2])):
        itl = fresh_interp(ctx)
        itl.vfs = {("path", "schwifty", "bank_registry"): copy.deepcopy(list_files)}
        itl.glob_order = order
        o = _run(itl, lambda: itl.call_func(gf, ["bank"], {}, None), "registry.get('bank') on a virtual directory")
        r_g.instance({"files": [f for f, _ in list_files], "listing": order_name})
        if o.kind != "return" or o.value != want:
            got = o.value if o.kind == "return" else f"raises {o.value.name} at {o.value.where}"
            r_g.finding("get:list", f"get('bank') over {[f for f, _ in list_files]} (listing order: {order_name}) gives {_brief(got)}; concatenation in name order with the v2 file "
                        f"expanded gives {_brief(want)}", gf.where, witness={"listing": order_name})
            break
    # missing registry
    itm = fresh_interp(ctx)
    itm.vfs = {}
    o = _run(itm, lambda: itm.call_func(gf, ["nothing"], {}, None), "registry.get of a missing registry")
    r_g.instance({"missing registry": o.kind})
    if o.kind != "raise":
        r_g.finding("get:missing", f"get() of a registry without files returns {o.value!r} instead of failing", gf.where)

    # ------------------------------------------------------------------ R18-real: the bundled files themselves
    # Every other check reads the bundled data through the checker's own loader (datamodel.py).  Here the tree's get() is evaluated on
    # the real files (virtual directory filled with their parsed contents, adversarial listing order) and must produce exactly that data:
    # whatever registry.py does to the data on the way in (normalising, filtering, re-ordering, defaulting) is seen here.
    import json as _json
    import os as _os
    r_real = report.rule("R18-real", floor=2, what="get('iban') / get('bank') evaluated on the real bundled files equal the data model every other check uses")
    real_reg = ctx.registry
    for name, want_real in (("iban", real_reg.countries), ("bank", real_reg.banks)):
        d = _os.path.join(real_reg.pkgdir, f"{name}_registry")
        files = []
        for fn in sorted(_os.listdir(d)):
            if fn.endswith(".json"):
                with open(_os.path.join(d, fn), encoding="utf-8") as fp:
                    files.append((fn, _json.load(fp)))
        itr = fresh_interp(ctx)
        itr.max_steps = 50_000_000
        itr.vfs = {("path", "schwifty", f"{name}_registry"): files + [("README.md", None)]}
        itr.glob_order = lambda xs: sorted(xs, reverse=True)
        o = _run(itr, lambda: itr.call_func(gf, [name], {}, None), f"registry.get({name!r}) on the bundled files")
        same = o.kind == "return" and o.value == want_real
        r_real.instance({"registry": name, "files": [f for f, _ in files], "entries": len(want_real), "equal": bool(same)})
        if not same:
            what = f"raises {o.value.name} at {o.value.where}" if o.kind == "raise" else _first_difference(o.value, want_real)
            r_real.finding(f"get:real:{name}", f"get({name!r}) evaluated on the bundled files does not give the composition the other checks assume: {what}", gf.where)

    # ------------------------------------------------------------------ R18-index
    r_i = report.rule("R18-index", floor=3, what="build_index: accumulating index skips empty keys (and tuples with an empty member); plain index keeps the last entry")
    bf = regmod.defs["build_index"]
    base = [e("AA", "7", "BBBBAA00"), e("AA", "", "CCCCAA00"), e("AA", "7", ""), e("", "8", "EEEEAA00"), e("BB", "7", "BBBBAA00", primary=False)]
    cases = [
        (dict(key="bic", accumulate=True), lambda x: x["bic"]),
        (dict(key=("country_code", "bank_code"), accumulate=True), lambda x: (x["country_code"], x["bank_code"])),
        (dict(key="country_code", accumulate=True), lambda x: x["country_code"]),
        (dict(key="bank_code", accumulate=True, primary=True), lambda x: x["bank_code"]),
    ]
    for kw, keyf in cases:
        iti = fresh_interp(ctx)
        iti.vfs = {("path", "schwifty", "bank_registry"): [("a.json", copy.deepcopy(base))]}

        def thunk():
            iti.call_func(bf, ["bank", "idx"], dict(kw), None)
            return iti.call_func(gf, ["idx"], {}, None)

        o = _run(iti, thunk, "registry.build_index")
        want = {}
        pred = {k: v for k, v in kw.items() if k not in ("key", "accumulate")}
        for x in base:
            if any(x[k] != v for k, v in pred.items()):
                continue
            k = keyf(x)
            if k and (not isinstance(k, tuple) or all(k)):
                want.setdefault(k, []).append(x)
        r_i.instance({"index": {k: (list(v) if isinstance(v, tuple) else v) for k, v in kw.items()}, "keys": [repr(k) for k in want]})
        if o.kind != "return" or o.value != want:
            got = o.value if o.kind == "return" else f"raises {o.value.name} at {o.value.where}"
            r_i.finding(f"build_index[{kw['key']!r}]", f"index by {kw['key']!r} has keys {sorted(map(repr, got)) if isinstance(got, dict) else got!r}; "
                        f"expected {sorted(map(repr, want))} (entries with an empty key are skipped, order of entries kept)", bf.where)

    # ------------------------------------------------------------------ R18-use
    r_u = report.rule("R18-use", floor=5, what="registry data is read only through registry.get; the cache is written only by save()")
    for mod in prog.modules.values():
        for n in ast.walk(mod.tree):
            if isinstance(n, ast.Attribute) and n.attr == "_registry" and mod is not regmod:
                r_u.finding(f"{mod.name}:_registry", f"{mod.relpath}:{n.lineno} reaches into registry._registry directly", f"{mod.relpath}:{n.lineno}")
            if isinstance(n, ast.Call) and (dotted(n.func) or "").endswith("json.load") and mod is not regmod:
                r_u.finding(f"{mod.name}:json.load", f"{mod.relpath}:{n.lineno} loads JSON on its own instead of going through registry.get", f"{mod.relpath}:{n.lineno}")
    writers = set()
    for f in regmod.defs.values():
        if isinstance(f, Func):
            for n in ast.walk(f.node):
                if isinstance(n, ast.Subscript) and isinstance(n.ctx, (ast.Store, ast.Del)) and isinstance(n.value, ast.Name) and n.value.id == "_registry":
                    writers.add(f.name)
                if isinstance(n, ast.Call) and isinstance(n.func, ast.Attribute) and isinstance(n.func.value, ast.Name) and n.func.value.id == "_registry" \
                        and n.func.attr in ("pop", "clear", "update", "setdefault", "popitem"):
                    writers.add(f.name)
    r_u.instance({"writers of the cache": sorted(writers)})
    if writers - {"save"}:
        r_u.finding("registry:writers", f"the registry cache is written by {sorted(writers - {'save'})} besides save()", regmod.defs["save"].where)
    n_reads = 0
    for mod in prog.modules.values():
        for n in ast.walk(mod.tree):
            if isinstance(n, ast.Call):
                d = prog.resolve_expr(mod, n.func) if isinstance(n.func, (ast.Name, ast.Attribute)) else None
                if isinstance(d, Func) and d.qualname == "schwifty.registry.get":
                    n_reads += 1
                    r_u.instance({"reader": f"{mod.relpath}:{n.lineno}", "name": ast.unparse(n.args[0]) if n.args else None})
    report.analysed = {"merge pairs": n, "registry.get call sites": n_reads}
    report.not_decided += ["merge_dicts on documents outside the bounded shape space (deeper than four levels, keys beyond three per level) is inferred from the exhaustive agreement inside it"]
    report.trusted += ["sv/datamodel.py (deep_merge, expand_v2: the composition as stated by C18 and the registry READMEs)"]


def _first_difference(got, want):
    if type(got) is not type(want):
        return f"a {type(got).__name__} instead of a {type(want).__name__}"
    if isinstance(want, list):
        if len(got) != len(want):
            return f"{len(got)} entries instead of {len(want)}"
        for i, (a, b) in enumerate(zip(got, want)):
            if a != b:
                return f"entry {i} is {_brief(a)}, expected {_brief(b)}"
    if isinstance(want, dict):
        for k in want:
            if k not in got:
                return f"key {k!r} is missing"
            if got[k] != want[k]:
                return f"key {k!r} is {_brief(got[k])}, expected {_brief(want[k])}"
        for k in got:
            if k not in want:
                return f"unexpected key {k!r}"
    return "values differ"


def _brief(v):
    s = repr(v)
    return s if len(s) < 300 else s[:300] + "..."
