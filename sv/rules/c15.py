"""C15 — results depend only on arguments and bundled data, never on call history."""
from __future__ import annotations

import ast

from ..algo_eval import component_value
from ..effects import Effects, interprocedural_taint
from ..interp import CannotEvaluate, PathLimit
from ..srcmodel import AnalysisError, Func, dotted
from ..values import AStr, DIGITS
from .c14 import IMPORT_ONLY, get_is_guarded, lazy_facts, shared_classes, slow_path_skip

CACHE_DECORATORS = ("lru_cache", "cache", "cached_property", "memoize", "singledispatch")
VALUE_CLASSES = ("schwifty.iban.IBAN", "schwifty.bic.BIC", "schwifty.bban.BBAN")


_SCALAR_ANNOTATIONS = {"str", "int", "bool", "float", "bytes", "None"}


def _harmless_cache(eff, f):
    """functools.lru_cache / cache on f is unobservable: f is a module-level function (no self whose identity is lost in the key), its
    declared result is an immutable scalar (a shared container could be mutated by one caller for all), its parameters are annotated
    as scalars, and neither f nor anything it calls has a write effect."""
    if f.cls is not None or f.outer is not None:
        return False
    ret = f.node.returns
    if ret is None or ast.unparse(ret) not in _SCALAR_ANNOTATIONS:
        return False
    a = f.node.args
    if a.vararg or a.kwarg:
        return False
    for p in list(a.posonlyargs) + list(a.args) + list(a.kwonlyargs):
        if p.annotation is None or ast.unparse(p.annotation) not in _SCALAR_ANNOTATIONS:
            return False
    for fid, (g, _) in eff.reachable([f]).items():
        if eff.direct_effects(g):
            return False
    return True


def _only_called_while_constructing(eff, f, ctor, _seen=None):
    """f is a private helper every caller of which is a constructor-time method (transitively): its stores happen during construction."""
    _seen = _seen or set()
    if id(f) in _seen:
        return True
    _seen.add(id(f))
    if not f.name.startswith("_") or f.name.startswith("__"):
        return False
    callers = [g for g in eff.funcs if any(h is f for h in eff.calls.get(id(g), ()))]
    if not callers:
        return False
    return all(g.name in ctor or _only_called_while_constructing(eff, g, ctor, _seen) for g in callers)


def run(ctx, report):
    prog = ctx.program
    facts = ctx.facts
    eff = Effects(prog)
    shared = shared_classes(ctx)
    report.explanation = (
        "History independence is decided as: (a) no function reachable at run time writes module-level state, registry data or a parameter bound to registry data; "
        "(b) state kept on the shared algorithm objects is dead across calls: every registered algorithm is evaluated abstractly with load tracking and must not read an "
        "attribute that the current call has not written; (c) no memoisation decorator; (d) IBAN/BIC/BBAN objects store attributes only while being constructed; "
        "(e) registry writers are only called while modules are imported."
    )
    loaded, sites = lazy_facts(ctx, eff)
    guarded = get_is_guarded(ctx)
    roots = eff.runtime_roots()
    runtime_all = eff.reachable(roots)
    from ..intrinsics import const_str
    lazy_ok = guarded and all(const_str(prog, f.module, n.args[0]) in loaded for f, n in sites
                               if id(f) in runtime_all and f.qualname not in IMPORT_ONLY and n.args)

    skip = slow_path_skip(ctx, eff, lazy_ok)

    runtime = eff.reachable(roots, skip_edge=skip)
    report.analysed = {"functions": len(eff.funcs), "runtime_reachable": len(runtime)}

    # ------------------------------------------------------------------ R15-writes
    r_w = report.rule("R15-writes", floor=60, what="no runtime-reachable write to module state, registry data or caller-owned arguments")
    ptaint = interprocedural_taint(eff)
    for fid, (f, via) in sorted(runtime.items(), key=lambda kv: kv[1][0].qualname):
        effects = eff.direct_effects(f)
        r_w.instance(None if not effects else {"function": f.qualname, "effects": [repr(e) for e in effects]})
        for e in effects:
            if e.kind in ("global-store", "module-mutation"):
                r_w.finding(f"{f.short}:{e.target}", f"{f.short} writes module-level state {e.target!r} {e.detail}: a later call can observe an earlier one "
                            f"({eff.path_to(runtime, f)})", e.where)
            elif e.kind == "default-mutation":
                r_w.finding(f"{f.short}:{e.target}", f"{f.short} uses its mutable default argument {e.target!r} as working storage ({e.detail}): the one default object is "
                            "shared by every call and every thread", e.where)
            elif e.kind == "tainted-mutation":
                r_w.finding(f"{f.short}:{e.target}", f"{f.short} modifies the bundled registry data through {e.target!r} ({e.detail})", e.where)
            elif e.kind == "param-mutation":
                root = e.target.split(".")[0]
                if root in ptaint.get(id(f), ()):
                    r_w.finding(f"{f.short}:{e.target}", f"{f.short} modifies its parameter {e.target!r} {e.detail}, which callers bind to registry data", e.where)
                elif not f.name.startswith("_") and f.cls is None and f.outer is None:
                    r_w.finding(f"{f.short}:{e.target}", f"public function {f.short} modifies its argument {e.target!r} {e.detail}", e.where)

    # ------------------------------------------------------------------ R15-cache
    r_c = report.rule("R15-cache", floor=100, what="no memoisation on any function of the package")
    for f in eff.funcs:
        r_c.instance(None)
        for d in f.decorators:
            dn = dotted(d) or dotted(getattr(d, "func", None)) or ""
            if dn.split(".")[-1] in CACHE_DECORATORS:
                if dn.split(".")[-1] in ("lru_cache", "cache") and _harmless_cache(eff, f):
                    # memoising a module-level function that has no effects, takes and returns immutable scalars cannot be observed
                    r_c.instance({"function": f.qualname, "decorator": dn, "harmless": "module-level, effect-free, scalar result"})
                    continue
                r_c.finding(f"{f.short}:@{dn}", f"{f.short} is memoised with @{dn}: for methods of the string value classes the cache key is the compact string only, "
                            "so objects that differ in other attributes (country of a BBAN, flags) share results; for others it pins results across registry changes",
                            f.where)
    r_c.samples.append({"functions scanned": len(eff.funcs)})

    # ------------------------------------------------------------------ R15-immutable
    r_i = report.rule("R15-immutable", floor=3, what="IBAN / BIC / BBAN store attributes only in __init__ / __new__")
    for q in VALUE_CLASSES:
        c = prog.get(q)
        stores = []
        for k in c.mro(prog):
            for f in k.methods.values():
                for e in eff.direct_effects(f):
                    if e.kind == "self-store":
                        stores.append((f, e))
        r_i.instance({"class": q, "attribute stores": [f"{f.short}: self.{e.target}" for f, e in stores]})
        ctor = ("__init__", "__new__", "__deepcopy__", "__setstate__")
        for f, e in stores:
            if f.name not in ctor and not _only_called_while_constructing(eff, f, ctor):
                r_i.finding(f"{f.short}:self.{e.target}", f"{f.short} stores self.{e.target} on a value object after construction: later calls on the same object see it", e.where)

    # ------------------------------------------------------------------ R15-import
    r_m = report.rule("R15-import", floor=4, what="save / manipulate / build_index are only called while modules are imported")
    for f in eff.funcs:
        for n in eff.own_nodes(f):
            if isinstance(n, ast.Call):
                d = prog.resolve_expr(f.module, n.func) if isinstance(n.func, (ast.Name, ast.Attribute)) else None
                if isinstance(d, Func) and d.qualname in IMPORT_ONLY and id(f) in runtime and not skip(f, d):
                    r_m.finding(f"{f.short}->{d.name}", f"{f.short} (reachable at run time) calls registry.{d.name}, which rewrites shared registry state", f"{f.module.relpath}:{n.lineno}")
    from ..intrinsics import _module_level_calls
    for q in IMPORT_ONLY[:3]:
        for mod, call, c in _module_level_calls(prog, q):
            r_m.instance({"import-time call": f"{mod.relpath}:{c.lineno}", "callee": q.split('.')[-1]})

    # ------------------------------------------------------------------ R15-state
    r_s = report.rule("R15-state", floor=55, what="no registered algorithm reads instance state that the current call has not written")
    reg = ctx.registry
    from ..state_eval import explore_algorithms
    per_reg, shared_writes = explore_algorithms(ctx, shared)
    for r, stale in per_reg:
        r_s.instance({"key": r.key, "stale reads": sorted(f"{a} in {f}" for a, f in stale)} if (stale or len(r_s.samples) < 3) else None)
        for (attr, fn), e in stale.items():
            r_s.finding(f"{r.cls.short}:{attr}@{fn}", f"{fn} reads self.{attr} before the current call has written it: the value left by an earlier call "
                        "(possibly for another account) decides the result", e["where"])
    for (name, fn, where), e in sorted(shared_writes.items(), key=lambda kv: str(kv[0])):
        r_s.finding(f"{fn}:{name}", f"{fn} writes into {name}, an object created once at class / module level and shared by every call "
                    f"({e['kind']} {e.get('attr') or e.get('op') or ''}): a later call sees what an earlier one left there", where)
    report.assumptions += ["pycountry and re are history-independent (library model)"]
    report.not_decided += [
        "a design that keeps state on purpose (a hand-written cache with a correct insert / lookup protocol, a lazily initialised constant) is reported by the who-may-write rule, not verified to be unobservable - "
        "only functools caches on effect-free module-level functions with scalar parameters and result are accepted as unobservable",
        "stale-read tracking evaluates every registered algorithm on abstract structure-conforming inputs of its country; state reachable only through other inputs is covered by the write rules alone",
    ]
