"""C11 — an IBAN or BIC decomposes losslessly into its published fields."""
from __future__ import annotations

from ..interp import CannotEvaluate, PathLimit
from ..srcmodel import AnalysisError
from ..values import Obj
from ..vmodel import LightModel
from .. import iban_rules as IR

TAGS = "ABCDEFGHIJKLMNOPQRSTUVWXYZ0123456789#$%&*+<=>?@"
COMPONENT_ACCESSORS = ["bank_code", "branch_code", "account_code", "national_checksum_digits", "account_type", "account_id",
                       "account_holder_id", "currency_code"]


def _one(it, thunk, what):
    try:
        outs = [o for o in it.explore(thunk, max_paths=64) if o.kind != "infeasible"]
    except (CannotEvaluate, PathLimit) as e:
        raise AnalysisError(f"cannot evaluate {what}: {e}")
    if len(outs) != 1:
        raise AnalysisError(f"{what} is not deterministic on a concrete text")
    o = outs[0]
    if o.kind == "raise":
        return ("raise", o.value)
    return ("ret", o.value)


def run(ctx, report):
    from .premises import accessor_entries, stateless_premise
    stateless_premise(ctx, report, 'R11-P1-stateless', [], extra=lambda prog, eff: accessor_entries(prog, eff, ("schwifty.iban.IBAN", "schwifty.bban.BBAN", "schwifty.bic.BIC"), names=set(COMPONENT_ACCESSORS) | {"country_code", "checksum_digits", "bban", "location_code", "compact"}), stop=(), without_national=True)
    prog = ctx.program
    facts = ctx.facts
    reg = ctx.registry
    iban = prog.get("schwifty.iban.IBAN")
    bic = prog.get("schwifty.bic.BIC")
    comps = facts.components()
    report.explanation = (
        "Accessors are evaluated through the abstract evaluator on tagged texts (every position a distinct character), so the substring each accessor "
        "returns identifies the positions it reads: for every length the IBAN parts tile the text, for every one of the 126 countries every component "
        "accessor of IBAN and of its BBAN returns exactly the published range of the table (or '' when unpublished), and the BIC parts tile lengths 8 and 11."
    )
    it = facts.interp()

    def build_iban(text):
        obj = Obj(iban, strval=text)
        init = iban.lookup(prog, "__init__")
        it.call_func(init[2], [obj, text], {"allow_invalid": True}, None)
        return obj

    # ------------------------------------------------------------------ R11-tile
    r = report.rule("R11-tile", floor=30, what="country code + check digits + BBAN = compact form; BIC parts = compact form")
    for n in range(0, 41):
        text = TAGS[:n]

        def parts():
            obj = build_iban(text)
            b = it.getattr(obj, "bban")
            return (it.getattr(obj, "country_code"), it.getattr(obj, "checksum_digits"), b.strval if isinstance(b, Obj) else b)

        res = _one(it, parts, "IBAN parts")
        r.instance({"length": n, "parts": res[1]} if n in (3, 22) else None)
        want = (text[0:2], text[2:4], text[4:]) if n >= 4 else None
        if res[0] != "ret":
            r.finding("IBAN.parts", f"reading the parts of a text of length {n} raises {res[1].name}", iban.where, witness=text)
            break
        if n >= 4 and tuple(res[1]) != want:
            r.finding("IBAN.parts", f"a text of length {n} decomposes into {res[1]!r}; country code, check digits and BBAN must be {want!r}", iban.where, witness=text)
            break
    for n in (8, 11):
        text = TAGS[:n]
        obj = Obj(bic, strval=text)
        res = _one(it, lambda: tuple(it.getattr(obj, a) for a in ("bank_code", "country_code", "location_code", "branch_code")), "BIC parts")
        want = (text[0:4], text[4:6], text[6:8], text[8:11])
        r.instance({"length": n, "parts": res[1]})
        if res[0] != "ret" or tuple(res[1]) != want:
            r.finding("BIC.parts", f"a BIC of length {n} decomposes into {res[1]!r}; prefix, country, location and branch must be {want!r}", bic.where, witness=text)

    # ------------------------------------------------------------------ R11-proxy
    r = report.rule("R11-proxy", floor=900, what="each component accessor (IBAN and BBAN) returns the published range of the country, '' when unpublished")
    for a in COMPONENT_ACCESSORS:
        if a not in comps.values():
            r.finding(f"Component:{a}", f"the component enumeration has no member with value {a!r}", prog.get("schwifty.domain.Component").where)
    bad = 0
    r_dis = report.rule("R11-disjoint", floor=100, what="fields never overlap: no BBAN position is returned by two different component accessors (decided on the tagged text of every country)")
    n_overlap = []
    for cc in sorted(reg.countries):
        spec = reg.countries[cc]
        n = spec.get("bban_length")
        if not isinstance(n, int) or n <= 0 or n > len(TAGS):
            continue
        body = TAGS[:n]
        text = cc + "00" + body
        pos = reg.positions(cc)

        def read():
            obj = build_iban(text)
            b = it.getattr(obj, "bban")
            return {a: (it.getattr(obj, a), it.getattr(b, a)) for a in COMPONENT_ACCESSORS}

        res = _one(it, read, f"component accessors for {cc}")
        if res[0] != "ret":
            r.finding(f"accessors[{cc}]", f"reading the components of a {cc} IBAN raises {res[1].name} at {res[1].where}", iban.where, witness=text)
            continue
        # R11-disjoint: what the accessors actually return on the tagged text (code + data of the tree) never shares a position
        owner = {}
        for a in COMPONENT_ACCESSORS:
            got_i = res[1][a][0]
            if not isinstance(got_i, str):
                continue
            for ch in got_i:
                i = body.find(ch)
                if i < 0:
                    continue
                if i in owner and owner[i] != a:
                    n_overlap.append((cc, owner[i], a, i))
                    break
                owner[i] = a
        r_dis.instance({"country": cc, "positions read by some accessor": len(owner), "bban_length": n} if cc in ("DE", "TR") else None)
        for a in COMPONENT_ACCESSORS:
            rng = pos.get(a)
            want = body[rng[0]:rng[1]] if isinstance(rng, list) and len(rng) == 2 else ""
            got_i, got_b = res[1][a]
            r.instance({"country": cc, "component": a, "range": rng, "value": got_i} if (cc, a) in (("DE", "bank_code"), ("IS", "account_holder_id")) else None)
            if got_i != want or got_b != want:
                bad += 1
                if bad <= 6:
                    which = "IBAN" if got_i != want else "BBAN"
                    got = got_i if got_i != want else got_b
                    r.finding(f"{which}.{a}[{cc}]", f"{cc}: {which}.{a} returns positions {_positions(body, got)} of the BBAN; the table publishes "
                              f"{rng if rng else 'no such field'}", (iban if which == 'IBAN' else prog.get('schwifty.bban.BBAN')).where, witness=text)

    for cc, a1, a2, i in n_overlap[:6]:
        r_dis.finding(f"overlap[{cc}]:{a1}/{a2}", f"{cc}: BBAN position {i} is returned both by {a1} and by {a2}: the fields overlap, so the components do not decompose the BBAN",
                      f"schwifty/iban_registry: {cc}", witness={"country": cc, "position": i, "components": [a1, a2]})

    # ------------------------------------------------------------------ R11-abstract: no value-dependent special case in the accessors
    from ..values import AStr, CharSet, ASCII_DIGITS, ASCII_UPPER
    from ..algo_eval import CLASS_CHARS, struct_positions
    r = report.rule("R11-abstract", floor=100, what="on abstract BBANs (any characters of the structure classes) every path of every accessor returns the published positions")
    nbad = 0
    for cc in sorted(reg.countries):
        st = struct_positions(reg, cc)
        if st is None:
            continue
        tags = [CharSet(CLASS_CHARS[k].chars) for k in st]
        pos = reg.positions(cc)
        it2 = facts.interp()

        def thunk():
            text = AStr([cc[0], cc[1], "0", "0"] + tags)
            obj = Obj(iban, strval=text)
            init = iban.lookup(prog, "__init__")
            it2.call_func(init[2], [obj, text], {"allow_invalid": True}, None)
            b = it2.getattr(obj, "bban")
            return {a: (it2.getattr(obj, a), it2.getattr(b, a)) for a in COMPONENT_ACCESSORS}

        try:
            outs = [x for x in it2.explore(thunk, max_paths=2000) if x.kind != "infeasible"]
        except (CannotEvaluate, PathLimit) as e:
            raise AnalysisError(f"cannot evaluate the accessors of {cc} on an abstract BBAN: {e}")
        r.instance({"country": cc, "paths": len(outs)} if cc in ("DE", "BR") else None)
        for x in outs:
            if x.kind != "return":
                nbad += 1
                if nbad <= 3:
                    r.finding(f"accessors-abstract[{cc}]", f"{cc}: reading the components of a structure-conforming IBAN can raise {x.value.name} at {x.value.where}", iban.where)
                continue
            for a in COMPONENT_ACCESSORS:
                rng = pos.get(a)
                want = tags[rng[0]:rng[1]] if isinstance(rng, list) and len(rng) == 2 else []
                for which, got in zip(("IBAN", "BBAN"), x.value[a]):
                    seq = list(got.pos) if isinstance(got, AStr) else ([got] if isinstance(got, CharSet) else (list(got) if isinstance(got, str) else None))
                    if seq is None or len(seq) != len(want) or any(g is not w for g, w in zip(seq, want)):
                        nbad += 1
                        if nbad <= 3:
                            cond = "; ".join(f"{ev['left']!r} {ev['op']} {ev['right']!r}" for ev in x.events if ev["kind"] == "compare" and isinstance(ev.get("right"), str) and ev["right"])[:200]
                            r.finding(f"{which}.{a}-abstract[{cc}]", f"{cc}: on some structure-conforming texts {which}.{a} does not return the published range {rng} "
                                      f"(a value-dependent path: {cond or 'see conditions of the accessor'})", iban.where)

    # ------------------------------------------------------------------ R11-enum
    r = report.rule("R11-enum", floor=8, what="component enumeration = keys used under positions / lookup components in the table")
    used = set()
    for cc, spec in reg.countries.items():
        used.update((spec.get("positions") or {}).keys())
        used.update(spec.get("bic_lookup_components") or [])
    for name, val in comps.items():
        r.instance({"member": name, "value": val, "used by table": val in used})
    for k in sorted(used - set(comps.values())):
        r.finding(f"Component:{k}", f"the table positions use component {k!r}, which the enumeration lacks; the field would be silently ignored",
                  prog.get("schwifty.domain.Component").where)

    # ------------------------------------------------------------------ R11-rebuild
    m = LightModel(ctx)
    IR.rule_from_bban(m, report, "R11-rebuild")
    report.not_decided += ["agreement of the published positions with SWIFT's registry"]
    report.assumptions += ["accessors are parametric in the characters (slicing only): a tagged text per length / country decides all texts"]


def _positions(body, got):
    if not isinstance(got, str):
        return repr(got)
    if got == "":
        return "none ('')"
    idx = [body.find(c) for c in got]
    if all(i >= 0 for i in idx) and idx == list(range(idx[0], idx[0] + len(idx))):
        return f"[{idx[0]}, {idx[-1] + 1})"
    return repr(got)
