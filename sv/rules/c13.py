"""C13 — random generation is always valid, honours pinned fields, and is reproducible."""
from __future__ import annotations

import ast

from .. import ops, relang
from ..algo_eval import country_fields, is_library_exc, struct_positions
from ..effects import Effects
from ..gen_eval import GUARDED, pattern
from ..intrinsics import const_str as _const_str
from ..interp import CannotEvaluate, PathLimit
from ..srcmodel import AnalysisError, Func, dotted
from ..values import AStr, CharSet, ClsRef, Obj, RegexVal

ND_SOURCES_CALLS = {"os.urandom", "uuid.uuid1", "uuid.uuid4", "time.time", "time.time_ns", "time.monotonic", "time.perf_counter",
                    "datetime.datetime.now", "datetime.now", "builtins.id", "builtins.hash", "os.getpid", "secrets.token_hex", "secrets.choice",
                    "secrets.randbelow", "secrets.token_bytes"}
MODULE_RANDOM_FUNCS = {"random", "choice", "choices", "randint", "randrange", "shuffle", "sample", "uniform", "getrandbits", "seed", "randbytes"}


def choice_reps(seq):
    if seq and isinstance(seq[0], dict):
        by = {}
        for e in seq:
            # one representative per shape of entry: length and per-character kind of the bank code (a letter in a numeric field is drawn too), BIC present
            kinds = "".join("d" if c in "0123456789" else "U" if "A" <= c <= "Z" else "o" for c in (e.get("bank_code") or ""))
            by.setdefault((kinds, bool(e.get("bic"))), e)
        return list(by.values())
    return seq if len(seq) <= 6 else [seq[0], seq[len(seq) // 2], seq[-1]]


def run(ctx, report):
    from .premises import accessor_entries, stateless_premise
    stateless_premise(ctx, report, "R13-P1-stateless", ["random"], extra=None, stop=("schwifty.bban.BBAN.validate_national_checksum",), outside=("schwifty.bic", "schwifty.checksum.germany"))
    prog = ctx.program
    reg = ctx.registry
    facts = ctx.facts
    bban = prog.get("schwifty.bban.BBAN")
    iban = prog.get("schwifty.iban.IBAN")
    report.explanation = (
        "Determinism: every function reachable from IBAN.random / BBAN.random and the import-time code that orders the data they draw from is scanned for sources of "
        "non-determinism (unseeded Random, module-level random functions, Rstr without the caller's generator, hash/id/time/urandom, iteration of sets, unsorted listings, patterns "
        "rstr expands through hash-ordered sets); Random() may only be constructed when the caller supplied none. Pinned fields: BBAN.random is evaluated abstractly for every "
        "country with positions, with and without the registry, with each of bank, branch and account code pinned to a position-revealing value (and to an over-long one): every "
        "returned BBAN must carry the pinned value at its published range. Validity: both random functions return only through the validating constructors."
    )
    eff = Effects(prog)
    f_brand = bban.methods.get("random")
    f_irand = iban.methods.get("random")
    if f_brand is None or f_irand is None:
        raise AnalysisError("anchor vanished: BBAN.random / IBAN.random")
    reach = eff.reachable([f_brand, f_irand])

    # ------------------------------------------------------------------ R13-det
    r = report.rule("R13-det", floor=10, what="no source of non-determinism reaches the draw except through the caller's generator")
    loaders = {"schwifty.registry.get", "schwifty.registry.merge_dicts", "schwifty.registry.parse_v2", "schwifty.registry.build_index", "schwifty.registry.save"}
    scan = dict(reach)
    for q in loaders:
        f = prog.find(q)
        if isinstance(f, Func):
            scan[id(f)] = (f, None)
    for fid, (f, via) in sorted(scan.items(), key=lambda kv: kv[1][0].qualname):
        findings = _nondeterminism(prog, eff, f)
        r.instance({"function": f.qualname, "sources": [x[1] for x in findings]} if findings or len(r.samples) < 3 else None)
        for node, what, key in findings:
            if key == "unsorted-listing" and f.module.name == "schwifty.registry":
                # the listing is not wrapped in sorted(...): decided by evaluation (virtual directory, three listing orders) whether the order matters
                from .c18 import listing_order_independent
                if listing_order_independent(ctx):
                    r.instance({"function": f.qualname, "listing": "not wrapped in sorted(); evaluation on a virtual directory shows the result does not depend on listing order"})
                    continue
            if key == "set-iteration" and f.qualname == "schwifty.registry.merge_dicts":
                # exemption, re-checked: the set only orders the keys of the merged *dict* registry; no consumer iterates that table
                if not _iban_table_iterated(prog, eff):
                    continue
                what += " — and the merged country table is iterated by a consumer"
            r.finding(f"{f.short}:{key}", f"{f.short}: {what}; results of random generation would differ between processes / hash seeds for the same seed",
                      f"{f.module.relpath}:{node.lineno}")
    # generator construction only when the caller gave none; Rstr gets the generator
    _generator_discipline(ctx, bban, iban, r)
    # rstr expands negated classes / non-digit categories through hash-ordered sets
    r2 = report.rule("R13-regex", floor=100, what="country patterns handed to rstr use only literals, ranges, the digit category and bounded repeats")
    table = facts.iban_table()
    n_rx = 0
    for cc in sorted(table):
        rx = table[cc].get("regex") if isinstance(table[cc], dict) else None
        r2.instance({"country": cc, "pattern": rx.pattern} if cc == "DE" and isinstance(rx, RegexVal) else None)
        if not isinstance(rx, RegexVal):
            continue
        try:
            g = relang.Regex(rx.pattern, rx.flags)
        except AnalysisError as e:
            r2.finding(f"regex[{cc}]", f"{cc}: pattern {rx.pattern!r} uses a construct outside the model ({e})", None)
            continue
        for raw in g.raws:
            if n_rx >= 3:
                break
            if raw[1] or any(it_[0] in ("ncat", "nacat") or (it_[0] in ("cat", "acat") and it_[1] != "digit") for it_ in raw[2]):
                r2.finding(f"regex[{cc}]", f"{cc}: pattern {rx.pattern!r} contains a negated class or a non-digit category; rstr draws such classes from a hash-ordered "
                           "set, so equal seeds give different texts under different hash seeds", None, witness=rx.pattern)
                n_rx += 1
                break

    # ------------------------------------------------------------------ R13-valid
    r3 = report.rule("R13-valid", floor=6, what="whatever IBAN.random returns was built by the IBAN constructor with validation on (by evaluation)")
    for cc in [c for c in ("BE", "DE", "PL", "NO", "FR") if c in reg.countries] + [c for c in sorted(reg.countries) if not reg.positions(c)][:1]:
        for use_registry in (True, False):
            outs, _ = _explore_entry(ctx, iban, iban, cc, use_registry)
            rets = [o for o in outs if o.kind == "return"]
            bad = None
            for o in rets:
                news = {e["oid"]: e for e in o.events if e["kind"] == "iban_new"}
                e = news.get(o.value.oid) if isinstance(o.value, Obj) else None
                if e is None:
                    bad = bad or ("IBAN.random:return", "returns a value that did not come from the IBAN constructor")
                    continue
                ai = e["kwargs"].get("allow_invalid", False)
                if ai is not False:
                    bad = bad or ("IBAN.random:return", f"builds its result with allow_invalid={ai!r}: an invalid draw is returned instead of being rejected")
            r3.instance({"country": cc, "registry": use_registry, "returning paths": len(rets)})
            if not rets:
                r3.finding(f"IBAN.random:{cc}:no-result", f"IBAN.random({cc!r}, use_registry={use_registry}) has no returning path", f_irand.where)
            if bad:
                r3.finding(bad[0], f"IBAN.random({cc!r}, use_registry={use_registry}) {bad[1]}", f_irand.where)

    # ------------------------------------------------------------------ R13-pinned
    r4 = report.rule("R13-pinned", floor=200, what="every returned BBAN conforms to the country's structure at every position and carries each pinned component unchanged (zero-padded) at its published range; pins that cannot be placed validly are never returned")
    countries = [cc for cc in sorted(reg.countries) if reg.positions(cc) and struct_positions(reg, cc)]
    sites = {}
    from ..par import pmap
    for n_inst, sample, found in pmap(lambda cc: _pinned_country(ctx, bban, cc), countries):
        for _ in range(n_inst - (1 if sample else 0)):
            r4.instance(None)
        if sample:
            r4.instance(sample)
        for key, hit in found:
            sites.setdefault(key, []).append(hit)
    for key, hits in sorted(sites.items(), key=lambda kv: str(kv[0])):
        cc, comp, pin, use_registry = hits[0][:4]
        ccs = sorted({h[0] for h in hits})
        if key[0] == "raise":
            r4.finding(f"BBAN.random:{key[1]}@{key[2]}", f"BBAN.random({cc!r}, {comp}={pin!r}) can raise {key[1]} at {key[2]} — not the documented overflow error",
                       key[2], witness={"country": cc, comp: pin, "use_registry": use_registry})
        elif key[0] == "conform":
            val, i = hits[0][4]
            r4.finding(f"BBAN.random:nonconforming-{comp}-{key[2].replace(' ', '-')}", f"BBAN.random({cc!r}, {comp}={pin!r}, use_registry={use_registry}) can return the BBAN {val}, whose character {i + 1} "
                       f"is not of the class the {cc} structure assigns to that position: an invalid object is returned instead of the overflow error "
                       f"({len(ccs)} countr{'y' if len(ccs) == 1 else 'ies'}: {', '.join(ccs[:8])}{', ...' if len(ccs) > 8 else ''})", f_brand.where,
                       witness={"country": cc, comp: pin, "use_registry": use_registry})
        else:
            got = hits[0][4]
            how = "a value longer than the field is silently truncated instead of failing" if key[2] == "too long" else (
                "a value of the wrong character class is accepted" if key[2] == "wrong class" else "the pinned value is overridden")
            r4.finding(f"BBAN.random:pinned-{comp}-{key[2].replace(' ', '-')}", f"BBAN.random({cc!r}, {comp}={pin!r}, use_registry={use_registry}) can return a BBAN whose {comp} is {got!r}: {how} "
                       f"({len(ccs)} countr{'y' if len(ccs) == 1 else 'ies'}: {', '.join(ccs[:8])}{', ...' if len(ccs) > 8 else ''})", f_brand.where,
                       witness={"country": cc, comp: pin, "use_registry": use_registry})
    # ------------------------------------------------------------------ R13-registry
    r5 = report.rule("R13-registry", floor=30, what="a registry-based draw belongs to the drawn bank: the BBAN's bank-identifying field equals the entry's bank code")
    by_country = reg.index_by_country()
    bad5 = {}
    for cc in countries:
        entries = by_country.get(cc)
        if not entries or any(not e.get("bank_code") for e in entries):
            continue   # the clause covers countries all of whose entries carry a bank code
        spec = reg.countries[cc]
        comps_l = reg.lookup_components(cc)
        if any(c not in fields_of(reg, cc) for c in comps_l):
            continue
        outs = _explore_random(ctx, bban, cc, True, {})
        n_ok = 0
        for o in outs:
            if o.kind != "return" or not isinstance(o.value, Obj):
                continue
            picked = None
            for e in o.events:
                if e["kind"] == "random_pick" and isinstance(e["picked"], dict):
                    picked = e["picked"]
            if picked is None:
                bad5.setdefault("no-entry", []).append((cc, None, None))
                continue
            val = o.value.strval
            key = []
            for c in comps_l:
                a, b, _ = fields_of(reg, cc)[c]
                part = _slice(val, a, b)
                key.append(part)
            if all(isinstance(k, str) for k in key):
                got = "".join(key)
                if got != picked["bank_code"]:
                    bad5.setdefault("mismatch", []).append((cc, picked["bank_code"], got))
                else:
                    n_ok += 1
            else:
                bad5.setdefault("random-field", []).append((cc, picked["bank_code"], repr(key)[:80]))
        r5.instance({"country": cc, "draws": len(outs), "agree": n_ok} if cc in ("SI", "DE", "PL") else None)
    for kind, hits in bad5.items():
        cc, code, got = hits[0]
        ccs = sorted({h[0] for h in hits})
        if kind == "no-entry":
            r5.finding("BBAN.random:registry-unused", f"BBAN.random({cc!r}, use_registry=True) returns without drawing a bank entry ({', '.join(ccs[:6])})", f_brand.where)
        else:
            r5.finding("BBAN.random:registry-bank", f"BBAN.random({cc!r}, use_registry=True) draws the entry with bank code {code!r} but returns a BBAN whose bank-identifying "
                       f"field is {got}: the result does not belong to the listed bank ({len(ccs)} countr{'y' if len(ccs) == 1 else 'ies'}: {', '.join(ccs[:8])})",
                       f_brand.where, witness={"country": cc, "entry bank_code": code})
    report.analysed = {"functions_scanned": len(scan), "countries": len(countries)}
    report.not_decided += ["that 100 retries suffice; 'for every seed a valid result' beyond the must-pass-through validation",
                           "structure conformance of returned BBANs is decided on the explored pins (exact, short, leading zeros, too long, wrong class, non-ASCII digits), not for every pinned text",
                           "retry loops are evaluated for two iterations (iterations carry no state)"]
    report.assumptions += ["rstr.xeger draws literals, ranges, \\d (from string.digits, i.e. the re.ASCII reading) and bounded repeats through the supplied generator (read in rstr 3.2.2); random.Random is deterministic given its state"]


def _pinned_country(ctx, bban, cc):
    """All pin variants of one country: (instances, sample, [(site key, hit)]) - plain data (runs in a forked worker)."""
    reg = ctx.registry
    prog = ctx.program
    n_inst = 0
    sample = None
    found = []
    fields = country_fields(reg, cc)
    st_cc = struct_positions(reg, cc)
    for comp in sorted(fields):
        if comp == "national_checksum_digits":
            continue   # computed by the library where an algorithm exists
        if comp not in GUARDED and ctx.tier == "quick" and not reg.countries[cc].get(f"default_{comp}") and comp not in ("currency_code", "account_type"):
            continue
        a, b, cls_letters = fields[comp]
        w = b - a
        pins = [("exact", pattern(cls_letters, salt=5))]
        if w > 1:
            pins.append(("short", pattern(cls_letters, salt=5)[: w - 1]))
        pins.append(("too long", pattern(cls_letters, salt=5) + pattern(cls_letters, salt=5)[-1]))
        if w > 2 and cls_letters[0] in "nc":
            pins.append(("leading zeros", "00" + pattern(cls_letters, salt=5)[2:]))
        if set(cls_letters) <= {"n"}:
            pins.append(("wrong class", ("ABCDEFGHJKLMNPQRSTUVWXYZ" * 3)[:w]))
            if comp in ("account_code", "bank_code"):
                pins.append(("wrong class", "\u0663" * w))   # decimal digits outside ASCII: \d matches them, the structure class n does not
        elif set(cls_letters) <= {"a"}:
            pins.append(("wrong class", ("1234567890" * 4)[:w]))
        for use_registry in (True, False):
            for label, pin in pins:
                if ctx.tier == "quick" and label != "exact" and not use_registry:
                    continue
                outs = _explore_random(ctx, bban, cc, use_registry, {comp: pin})
                n_inst += 1
                if (cc, comp, label) == ("PL", "branch_code", "exact"):
                    sample = {"country": cc, "pinned": {comp: pin}, "registry": use_registry, "outcomes": sorted({o.kind for o in outs})}
                for o in outs:
                    if o.kind == "raise":
                        if not is_library_exc(prog, o.value):
                            key = ("raise", o.value.name, o.value.where)
                            found.append((key, (cc, comp, pin, use_registry)))
                        continue
                    val = o.value.strval if isinstance(o.value, Obj) else None
                    bad_at = _nonconforming(val, st_cc)
                    if bad_at is not None:
                        found.append((("conform", comp, label), (cc, comp, pin, use_registry, (_show(val), bad_at))))
                        continue
                    got = _slice(val, a, b)
                    want = pin.zfill(w) if len(pin) <= w else None
                    if label == "wrong class":
                        want = None
                    if want is None or got != want:
                        key = ("pinned", comp, label)
                        found.append((key, (cc, comp, pin, use_registry, got if isinstance(got, str) else repr(got))))
    return n_inst, sample, found


def fields_of(reg, cc):
    return country_fields(reg, cc)


def _nonconforming(val, st):
    """Index of the first position of the (abstract) BBAN text that can hold a character outside its structure class, the length
    mismatch marker -1, or None when every concretisation conforms."""
    from ..algo_eval import CLASS_CHARS
    if st is None or val is None:
        return None
    pos = list(val) if isinstance(val, str) else (list(val.pos) if isinstance(val, AStr) else None)
    if pos is None:
        return None
    if len(pos) != len(st):
        return -1
    for i, (p, k) in enumerate(zip(pos, st)):
        chars = p.chars if isinstance(p, CharSet) else {p}
        if not set(chars) <= set(CLASS_CHARS[k].chars):
            return i
    return None


def _show(val):
    return repr(val) if isinstance(val, str) else repr(val)[:120]


def _slice(val, a, b):
    if isinstance(val, str):
        return val[a:b]
    if isinstance(val, AStr):
        part = val.pos[a:b]
        if all(isinstance(p, str) for p in part):
            return "".join(part)
        return AStr.make(part)
    return val


def _explore_random(ctx, bban, cc, use_registry, pinned):
    it = ctx.facts.interp(max_paths=6000)
    it.no_split = 1
    it.retry_loop_cap = 2
    it.dedupe_sites = True
    it.choice_reps = choice_reps
    try:
        return [o for o in it.explore(lambda: it.call(it.getattr(ClsRef(bban), "random"), [cc],
                                                        dict(random=ops.RandVal(True), use_registry=use_registry, **pinned))) if o.kind != "infeasible"]
    except (CannotEvaluate, PathLimit) as e:
        raise AnalysisError(f"cannot evaluate BBAN.random({cc!r}, {pinned}): {e}")


def _nondeterminism(prog, eff, f):
    out = []
    params = set(f.params()) | {a.arg for a in f.node.args.kwonlyargs}
    locals_ = set(params)
    for n in eff.own_nodes(f):
        if isinstance(n, ast.Name) and isinstance(n.ctx, ast.Store):
            locals_.add(n.id)
    for n in eff.own_nodes(f):
        if isinstance(n, ast.Call):
            fn = n.func
            name = dotted(fn)
            d = None
            if isinstance(fn, (ast.Name, ast.Attribute)):
                root = fn
                while isinstance(root, ast.Attribute):
                    root = root.value
                if isinstance(root, ast.Name) and root.id in locals_:
                    d = None   # attribute of a local value (e.g. the caller's generator named `random`)
                else:
                    d = prog.resolve_expr(f.module, fn)
            if isinstance(d, tuple) and d[0] == "ext":
                q = d[1]
                if q in ND_SOURCES_CALLS:
                    out.append((n, f"calls {q}()", q))
                if q.startswith("random.") and q.split(".")[1] in MODULE_RANDOM_FUNCS:
                    out.append((n, f"draws from the process-wide generator ({q})", q))
                if q == "random.SystemRandom":
                    out.append((n, "uses SystemRandom (OS entropy)", q))
            if isinstance(fn, ast.Name) and fn.id in ("id", "hash") and fn.id not in locals_ and prog.resolve_name(f.module, fn.id) is None:
                out.append((n, f"calls {fn.id}()", fn.id))
            if isinstance(fn, ast.Attribute) and fn.attr in ("glob", "iterdir", "listdir", "scandir", "rglob"):
                if not _wrapped_in_sorted(f, n):
                    out.append((n, f"directory listing {ast.unparse(n)[:50]} is consumed in file-system order", "unsorted-listing"))
        iters = []
        if isinstance(n, ast.For):
            iters.append(n.iter)
        if isinstance(n, (ast.ListComp, ast.GeneratorExp, ast.SetComp, ast.DictComp)):
            iters.extend(g.iter for g in n.generators)
        for itx in iters:
            if _is_set_expr(itx):
                out.append((n, f"iterates a set ({ast.unparse(itx)[:60]}): order depends on the hash seed", "set-iteration"))
        if isinstance(n, ast.Call) and isinstance(n.func, ast.Name) and n.func.id in ("list", "tuple", "sorted", "next", "iter", "min", "max") and n.args and _is_set_expr(n.args[0]):
            if n.func.id not in ("sorted", "min", "max"):
                out.append((n, f"materialises a set in hash order ({ast.unparse(n)[:60]})", "set-iteration"))
    return out


def _is_set_expr(e):
    if isinstance(e, (ast.Set, ast.SetComp)):
        return True
    if isinstance(e, ast.Call) and isinstance(e.func, ast.Name) and e.func.id in ("set", "frozenset"):
        return True
    if isinstance(e, ast.BinOp) and isinstance(e.op, (ast.BitAnd, ast.BitOr, ast.Sub, ast.BitXor)):
        return _is_set_expr(e.left) or _is_set_expr(e.right)
    return False


def _wrapped_in_sorted(f, call):
    for n in ast.walk(f.node):
        if isinstance(n, ast.Call) and isinstance(n.func, ast.Name) and n.func.id == "sorted" and n.args and any(x is call for x in ast.walk(n.args[0])):
            return True
    return False


def _strip_casts(e):
    """typing.cast(T, x) is x; the subscripts of the type expression T say nothing about the value"""
    while isinstance(e, ast.Call) and isinstance(e.func, (ast.Name, ast.Attribute)) and (e.func.id if isinstance(e.func, ast.Name) else e.func.attr) == "cast" and len(e.args) == 2:
        e = e.args[1]
    return e


def _iban_table_iterated(prog, eff):
    """Does any function outside registry.py iterate the merged country table itself?"""
    for f in eff.funcs:
        if f.module.name == "schwifty.registry":
            continue
        names = set()

        def reads_iban_table(expr):
            for x in ast.walk(expr):
                if isinstance(x, ast.Call):
                    d = prog.resolve_expr(f.module, x.func) if isinstance(x.func, (ast.Name, ast.Attribute)) else None
                    if isinstance(d, Func) and d.qualname == "schwifty.registry.get" and x.args and _const_str(prog, f.module, x.args[0]) == "iban":
                        return True
            return False

        changed = True
        while changed:
            changed = False
            for n in eff.own_nodes(f):
                if isinstance(n, (ast.Assign, ast.AnnAssign, ast.NamedExpr)) and getattr(n, "value", None) is not None:
                    v = _strip_casts(n.value)
                    # the table itself (also through a conditional expression / cast), not one country's entry
                    if isinstance(v, ast.Subscript):
                        continue
                    src = reads_iban_table(v) or any(isinstance(x, ast.Name) and x.id in names for x in ast.walk(v) if not isinstance(v, ast.Subscript))
                    if src and not any(isinstance(x, ast.Subscript) for x in ast.walk(v)):
                        targets = n.targets if isinstance(n, ast.Assign) else [n.target]
                        for t in targets:
                            if isinstance(t, ast.Name) and t.id not in names:
                                names.add(t.id)
                                changed = True
        for n in eff.own_nodes(f):
            its = []
            if isinstance(n, ast.For):
                its.append(n.iter)
            if isinstance(n, (ast.ListComp, ast.GeneratorExp, ast.SetComp, ast.DictComp)):
                its.extend(g.iter for g in n.generators)
            if isinstance(n, ast.Call) and isinstance(n.func, ast.Name) and n.func.id in ("list", "tuple") and n.args:
                its.append(n.args[0])
            for e in its:
                e = _strip_casts(e)
                root = e
                while isinstance(root, (ast.Call, ast.Attribute)):
                    if isinstance(root, ast.Call) and reads_iban_table(root) and not isinstance(root.func, ast.Attribute):
                        return True
                    root = root.func if isinstance(root, ast.Call) else root.value
                if isinstance(root, ast.Name) and root.id in names:
                    return True
                if reads_iban_table(e) and not any(isinstance(x, ast.Subscript) for x in ast.walk(e)):
                    return True
    return False


def _generator_discipline(ctx, bban, iban, rule):
    """Every draw goes through the generator the caller supplied - decided by evaluation: BBAN.random and IBAN.random are explored with a
    marked generator for representative countries (with / without registry, with and without a country), and every draw event on every
    path must name that generator.  Spelling of the `random is None` fallback is irrelevant."""
    prog = ctx.program
    reg = ctx.registry
    f_brand = bban.methods["random"]
    f_irand = iban.methods["random"]
    with_pos = [cc for cc in ("BE", "DE", "PL", "IT") if cc in reg.countries and reg.positions(cc)]
    without = [cc for cc in sorted(reg.countries) if not reg.positions(cc)][:1]
    cases = [(cc, ur) for cc in with_pos + without for ur in (True, False)] + [("", True)]
    for cc, use_registry in cases:
        for entry, cls, fn in (("BBAN.random", bban, f_brand), ("IBAN.random", iban, f_irand)):
            outs, _ = _explore_entry(ctx, cls, iban, cc, use_registry)
            foreign = {}
            draws = 0
            for o in outs:
                for e in o.events:
                    if e["kind"] == "random_draw":
                        draws += 1
                        if getattr(e["gen"], "origin", None) != "caller":
                            foreign.setdefault(ctx_where(prog, e), e)
            rule.instance({"entry": entry, "country": cc or None, "registry": use_registry, "paths": len(outs), "draws": draws, "foreign draws": len(foreign)}
                          if (cc in ("BE", "") or foreign) else None)
            for where_, e in foreign.items():
                g = e["gen"]
                how = "a generator constructed inside the library" if g is not None else "the process-wide / default generator"
                rule.finding(f"{entry}:foreign-draw:{e['op']}", f"{entry}({cc!r}, random=<caller's generator>, use_registry={use_registry}): the {e['op']} draw at {where_} uses {how}, "
                             "not the caller's generator: equal seeds no longer give equal results", where_)
            if not draws and any(o.kind == "return" for o in outs):
                rule.finding(f"{entry}:no-draw", f"{entry}({cc!r}) returns without drawing from the caller's generator", fn.where)


def ctx_where(prog, e):
    n = e.get("node")
    return e.get("where") or (f"line {getattr(n, 'lineno', '?')}")


def _explore_entry(ctx, cls, iban, cc, use_registry, pinned=None):
    """Explore <cls>.random(cc, random=<marked generator>, ...); the IBAN constructor is replaced by a recorder."""
    it = ctx.facts.interp(max_paths=6000)
    it.no_split = 1
    it.retry_loop_cap = 2
    it.dedupe_sites = True
    it.choice_reps = choice_reps
    made = []

    def new_iban(it_, args, kwargs, node):
        o = Obj(iban)
        it_.event("iban_new", oid=o.oid, args=list(args), kwargs=dict(kwargs))
        return o

    it.intrinsics["new:" + iban.qualname] = new_iban
    gen = ops.RandVal(True, origin="caller")
    try:
        outs = [o for o in it.explore(lambda: it.call(it.getattr(ClsRef(cls), "random"), [cc], dict(random=gen, use_registry=use_registry, **(pinned or {}))))
                if o.kind != "infeasible"]
    except (CannotEvaluate, PathLimit) as e:
        raise AnalysisError(f"cannot evaluate {cls.short}.random({cc!r}): {e}")
    return outs, made


def _enclosing_if(fn, target):
    best = None
    for n in ast.walk(fn):
        if isinstance(n, ast.If) and any(x is target for b in n.body for x in ast.walk(b)):
            best = n
    return best
