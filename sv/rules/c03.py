"""C03 — every single typing error in a valid IBAN is detected."""
from __future__ import annotations

from ..srcmodel import AnalysisError

from ..vmodel import IbanModel
from .. import iban_rules as R


def run(ctx, report):
    from .premises import accessor_entries, stateless_premise
    stateless_premise(ctx, report, 'R03-P1-stateless', ['iban-validate'], extra=None, stop=('schwifty.bban.BBAN.validate_national_checksum',), without_national=True, outside=("schwifty.bic",))
    # premise of the symbolic model below (it starts from the cleaned text): the object carries clean(raw), and nothing reads the
    # raw parameter again (what clean() removes is C10's / C01's concern, not this property's).
    from .c10 import normalisation_rules
    try:
        normalisation_rules(ctx, report, "R03-P0", parts=("norm",))
    except AnalysisError as e:
        report.notes.append(f"normalisation premise not decided: {e}")
    m = IbanModel(ctx, with_validate=False)
    report.explanation = (
        "Premises of the mod-97 detection lemma are decided on the source: every accepting path is guarded by the mod-97 condition (P1); the letter "
        "expansion is decimal concatenation of 0..9 / 10..35 in text order over a rearrangement that is a permutation of all characters (P2, P3); "
        "kind-changing substitutions are rejected by the per-position class check (accept language inclusion). The lemma itself is then evaluated "
        "on the extracted modulus and the longest IBAN of the bundled table (P4)."
    )
    R.analysed(m, report)
    R.rule_p1(m, report, "R03-P1")
    R.rule_arith(m, report, "R03-P2-rearrangement")
    R.rule_numerify(m, report, "R03-P3-numerify")
    R.rule_lemma(m, report, "R03-P4-lemma")
    R.rule_accept(m, report, "R03-P5-classes", entries=[("init", False)])
    report.not_decided += ["the conclusion is the stated lemma (delta = (v(a)-v(b))*10^k resp. (v(a)-v(b))*(10^i-10^j) is non-zero mod M), not derived from the code by the checker"]
