"""C08 — generated IBANs carry exactly the supplied components, padded, never altered."""
from __future__ import annotations

from ..algo_eval import country_fields, is_library_exc, struct_positions
from ..gen_eval import GUARDED, GenHarness, pattern
from ..interp import CannotEvaluate, PathLimit
from ..srcmodel import AnalysisError
from ..values import AStr, ClsRef, Obj, TOP_CLEAN
from ..vmodel import LightModel
from .. import iban_rules as IR

ERR = {"bank_code": "InvalidBankCode", "branch_code": "InvalidBranchCode", "account_code": "InvalidAccountCode"}


def run(ctx, report):
    from .premises import accessor_entries, stateless_premise
    stateless_premise(ctx, report, "R08-P1-stateless", ["generate"], extra=None, stop=("schwifty.bban.BBAN.validate_national_checksum",), outside=("schwifty.bic", "schwifty.checksum.germany"))
    prog = ctx.program
    reg = ctx.registry
    h = GenHarness(ctx)
    report.explanation = (
        "BBAN.from_components and IBAN.generate are evaluated by the abstract evaluator for every country with published positions: with class-conforming, position-revealing component "
        "values of full width, of shorter width (zero padding), with a combined bank+branch code and with over-long values; the result must carry each cleaned, zero-padded component "
        "at its published range, zeros elsewhere except the computed national check digits, and over-long values must raise the component's own error class. Then every component is "
        "replaced by an arbitrary text of the clean universe (all characters, incl. non-ASCII) and every path must end in a value or a library exception."
    )
    countries = [cc for cc in sorted(reg.countries) if reg.positions(cc) and struct_positions(reg, cc)]
    r_pl = report.rule("R08-place", floor=100, what="each supplied component, cleaned and left-padded with zeros, sits at the country's published range; nothing else changes")
    r_gd = report.rule("R08-guards", floor=100, what="a component longer than its field raises the error class of that component")
    r_er = report.rule("R08-errors", floor=100, what="arbitrary component texts end in a value or a library exception")
    r_va = report.rule("R08-valid", floor=3, what="generate builds through from_bban with validation on; unknown country / no positions raise library errors")
    foreign = {}
    regs = ctx.facts.algorithm_table()

    def country_body(cc, rules):
        r_pl, r_gd, r_er = rules["R08-place"], rules["R08-guards"], rules["R08-errors"]
        bad = {"place": 0, "guard": 0, "err": 0}
        local = []
        fields = country_fields(reg, cc)
        st = struct_positions(reg, cc)
        n = reg.countries[cc]["bban_length"]
        nat = fields.get("national_checksum_digits")
        has_algo = f"{cc}:default" in regs
        variants = []
        full = {c: pattern(fields[c][2], salt=3 * i) for i, c in enumerate(GUARDED) if c in fields}
        variants.append(("full width", full))
        short = {c: v[1:] if len(v) > 1 else v for c, v in full.items()}
        variants.append(("one shorter (padding)", short))
        if "bank_code" in fields and "branch_code" in fields:
            comb = dict(full)
            comb["bank_code"] = full["bank_code"] + full["branch_code"]
            comb.pop("branch_code")
            variants.append(("combined bank+branch", comb))
        lower = {c: (" " + v[: len(v) // 2] + " " + v[len(v) // 2:]).lower() for c, v in full.items()}
        variants.append(("spaces and lower case", lower))
        for label, vals in variants:
            res = h.from_components(cc, **vals)
            r_pl.instance({"country": cc, "variant": label, "values": vals, "bban": res[1] if res[0] == "ret" else f"raises {res[1].name}"} if cc in ("DE", "GB") and len(r_pl.samples) < 4 else None)
            if res[0] == "exc":
                if is_library_exc(prog, res[1]):
                    continue   # a library error is an allowed outcome (e.g. a check digit that does not compute)
                bad["err"] += 1
                if bad["err"] <= 4:
                    r_er.finding(f"from_components[{cc}]:{res[1].name}", f"{cc}: class-conforming components {vals} make from_components raise {res[1].name} at {res[1].where}",
                                 res[1].where, witness={"country": cc, **vals})
                continue
            bban = res[1]
            want = ["0"] * n
            expect = dict(vals)
            if label == "combined bank+branch":
                bw = fields["bank_code"][1] - fields["bank_code"][0]
                expect = dict(full)
            for c, v in expect.items():
                a, b, _ = fields[c]
                vv = "".join(v.split()).upper().zfill(b - a)
                want[a:b] = list(vv)
            ok = isinstance(bban, str) and len(bban) == n
            if ok:
                for i in range(n):
                    in_nat = nat is not None and nat[0] <= i < nat[1] and has_algo
                    if not in_nat and bban[i] != want[i]:
                        ok = False
                        break
            if not ok:
                bad["place"] += 1
                if bad["place"] <= 4:
                    r_pl.finding(f"from_components[{cc}]:{label}", f"{cc} ({label}): components {vals} give BBAN {bban!r}; placing each cleaned, zero-padded component at its published range gives "
                                 f"{''.join(want)!r}" + (f" (positions {nat[0]}..{nat[1]} hold computed check digits)" if nat and has_algo else ""),
                                 h.bban.methods["from_components"].where, witness={"country": cc, **vals})
        # over-long values
        for c in GUARDED:
            if c not in fields:
                continue
            vals = dict(full)
            vals[c] = full[c] + full[c][-1]
            if c == "bank_code" and "branch_code" in fields:
                # bank code one longer than bank + branch together (a combined-width code is split, not rejected)
                vals[c] = full["bank_code"] + full["branch_code"] + full["bank_code"][-1]
                vals.pop("branch_code", None)
            if c == "bank_code" and "branch_code" in fields and fields["branch_code"][1] - fields["branch_code"][0] > 1:
                # also: one character longer than the bank field alone (shorter than bank + branch together, so it is not a combined code)
                v2 = dict(full)
                v2["bank_code"] = full["bank_code"] + full["bank_code"][-1]
                res2 = h.from_components(cc, **v2)
                r_gd.instance(None)
                if not (res2[0] == "exc" and res2[1].name == ERR[c]):
                    bad["guard"] += 1
                    if bad["guard"] <= 4:
                        got2 = f"raises {res2[1].name}" if res2[0] == "exc" else f"returns {res2[1]!r}"
                        r_gd.finding(f"from_components[{cc}]:{c}-one-too-long", f"{cc}: a bank_code of {len(v2['bank_code'])} characters (field width {fields[c][1] - fields[c][0]}, "
                                     f"bank + branch {fields[c][1] - fields[c][0] + fields['branch_code'][1] - fields['branch_code'][0]}) {got2}; expected {ERR[c]}",
                                     h.bban.methods["from_components"].where, witness={"country": cc, **v2})
            res = h.from_components(cc, **vals)
            r_gd.instance({"country": cc, "component": c, "outcome": res[1].name if res[0] == "exc" else res[1]} if cc == "DE" else None)
            if not (res[0] == "exc" and res[1].name == ERR[c]):
                bad["guard"] += 1
                if bad["guard"] <= 4:
                    got = f"raises {res[1].name}" if res[0] == "exc" else f"returns {res[1]!r}"
                    r_gd.finding(f"from_components[{cc}]:{c}-too-long", f"{cc}: a {c} of {len(vals[c])} characters (field width {fields[c][1] - fields[c][0]}"
                                 + (f" + branch {fields['branch_code'][1] - fields['branch_code'][0]}" if c == 'bank_code' and 'branch_code' in fields else "")
                                 + f") {got}; expected {ERR[c]}", h.bban.methods["from_components"].where, witness={"country": cc, **vals})
            # the same over-long component made of characters the country's national algorithm cannot digest (letters in a numeric field,
            # punctuation): the length guard must still answer, with the component's own class - not whatever the algorithm makes of the text
            for tag, ch in (("letters", "Z"), ("punctuation", "-")):
                v3 = dict(vals)
                v3[c] = ch * len(vals[c])
                res3 = h.from_components(cc, **v3)
                r_gd.instance(None)
                if not (res3[0] == "exc" and res3[1].name == ERR[c]):
                    bad["guard"] += 1
                    if bad["guard"] <= 4:
                        got3 = f"raises {res3[1].name}" if res3[0] == "exc" else f"returns {res3[1]!r}"
                        r_gd.finding(f"from_components[{cc}]:{c}-too-long-{tag}", f"{cc}: a {c} of {len(v3[c])} characters ({v3[c]!r}: too long and of {tag}) {got3}; "
                                     f"a component longer than its field must raise {ERR[c]} whatever it consists of", h.bban.methods["from_components"].where,
                                     witness={"country": cc, **v3})
        # arbitrary characters: abstract evaluation
        ita = ctx.facts.interp(max_paths=6000)
        ita.no_split = 1
        ita.dedupe_sites = True
        absvals = {c: AStr([TOP_CLEAN] * (fields[c][1] - fields[c][0])) for c in GUARDED if c in fields}
        outs = h.outcomes(lambda: ita.call(ita.getattr(ClsRef(h.iban), "generate"), [cc, absvals.get("bank_code", ""), absvals.get("account_code", ""), absvals.get("branch_code", "")], {}),
                          f"IBAN.generate({cc}) on arbitrary component texts", it=ita)
        excs = {}
        for o in outs:
            if o.kind == "raise" and not is_library_exc(prog, o.value):
                excs.setdefault((o.value.name, o.value.where), o)
        r_er.instance({"country": cc, "paths": len(outs), "foreign exceptions": sorted(k[0] for k in excs)} if cc in ("DE", "FR") else None)
        for (name, where), o in excs.items():
            wit = None
            for e in o.events:
                if e["kind"] == "partial" and e.get("exc") == name:
                    wit = e.get("witness")
            local.append((name, where, wit if isinstance(wit, (str, int, type(None))) else repr(wit), str(o.value.args[0]) if o.value.args else ""))
        return local

    from ..par import replay, run_recorded
    real = {"R08-place": r_pl, "R08-guards": r_gd, "R08-errors": r_er}
    for cc, (recs, local) in zip(countries, run_recorded(list(real), country_body, countries)):
        replay(real, recs, cap=6)
        for name, where, wit, msg in local:
            site = foreign.setdefault((name, where), {"countries": [], "witness": wit, "msg": msg})
            site["countries"].append(cc)
    for (name, where), site in sorted(foreign.items()):
        ccs = site["countries"]
        r_er.finding(f"generate:{name}@{where}", f"IBAN.generate with an arbitrary component text raises {name} at {where} ({site['msg']}) for {len(ccs)} countr{'y' if len(ccs) == 1 else 'ies'} "
                     f"({', '.join(ccs[:8])}{', ...' if len(ccs) > 8 else ''}) — not a library exception", where,
                     witness={"country": ccs[0], "offending character / value": site["witness"]})
    for rule in (r_pl, r_gd, r_er):
        if getattr(rule, "suppressed", 0):
            rule.samples.append({"further findings suppressed": rule.suppressed})
    # unknown country / no positions
    res = h.from_components("XX", bank_code="1", account_code="1")
    r_va.instance({"unknown country": res[1].name if res[0] == "exc" else res[1]})
    if not (res[0] == "exc" and is_library_exc(prog, res[1])):
        r_va.finding("from_components:unknown-country", f"an unknown country gives {res!r}, expected a library error", h.bban.methods["from_components"].where)
    nopos = next((cc for cc in sorted(reg.countries) if not reg.positions(cc)), None)
    if nopos:
        res = h.from_components(nopos, bank_code="1", account_code="1")
        r_va.instance({"country without positions": nopos, "outcome": res[1].name if res[0] == "exc" else res[1]})
        if not (res[0] == "exc" and is_library_exc(prog, res[1])):
            r_va.finding("from_components:no-positions", f"{nopos} publishes no positions; from_components gives {res!r}, expected a library error", h.bban.methods["from_components"].where)
    # generate -> from_bban with validation on
    it = ctx.facts.interp()
    captured = []
    fb = h.iban.methods.get("from_bban")
    if fb is None:
        raise AnalysisError("anchor vanished: IBAN.from_bban")

    def hook(it_, args, kwargs, node):
        captured.append((args, kwargs))
        return Obj(h.iban, strval="X")

    it.intrinsics[fb.qualname] = hook
    h.outcomes(lambda: it.call(it.getattr(ClsRef(h.iban), "generate"), ["DE", "43060967", "7000534100"], {}), "IBAN.generate", it=it)
    r_va.instance({"from_bban calls": len(captured), "kwargs": [sorted(k) for _, k in captured]})
    if not captured:
        r_va.finding("generate:from_bban", "IBAN.generate does not build the IBAN through from_bban (the validating path)", h.iban.methods["generate"].where)
    for args, kwargs in captured:
        if kwargs.get("allow_invalid") not in (None, False) or (len(args) > 3 and args[3] is not False):
            r_va.finding("generate:allow_invalid", "IBAN.generate builds the IBAN with validation switched off", h.iban.methods["generate"].where)
    IR.rule_from_bban(LightModel(ctx), report, "R08-from-bban")
    report.analysed = {"countries_with_positions": len(countries)}
    report.not_decided += ["that the positions are the published ones (no SWIFT oracle)", "components other than bank, branch and account code (outside the statement)",
                           "component values are probed with position-revealing patterns per variant (full, shorter, combined, spaces/lower case), not all strings; "
                           "the arbitrary-character run decides exceptions only"]
