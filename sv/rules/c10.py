"""C10 — whitespace and letter case never matter; formatting round-trips."""
from __future__ import annotations

import ast

from .. import relang
from ..interp import CannotEvaluate, PathLimit
from ..relang import Alphabet, DFA, Regex
from ..srcmodel import AnalysisError, Class, Func
from ..values import ClsRef, Obj, RegexVal, SStr, Sym

TAGS = "ABCDEFGHIJKLMNOPQRSTUVWXYZ0123456789#$%&*+<=>?@"


def _one(it, thunk, what):
    try:
        outs = [o for o in it.explore(thunk, max_paths=64) if o.kind != "infeasible"]
    except (CannotEvaluate, PathLimit) as e:
        raise AnalysisError(f"cannot evaluate {what}: {e}")
    if len(outs) != 1:
        raise AnalysisError(f"{what} is not deterministic")
    return outs[0]


def clean_shape(v):
    """Decompose the symbolic result of clean(raw) into the list of operations applied to raw."""
    ops_ = []
    while True:
        if isinstance(v, Sym) and v.kind == "method" and v.args[1] == "upper" and not v.args[2]:
            ops_.append(("upper",))
            v = v.args[0]
        elif isinstance(v, Sym) and v.kind == "upper":
            ops_.append(("upper",))
            v = v.args[0]
        elif isinstance(v, Sym) and v.kind == "resub":
            rx, repl, s = v.args
            ops_.append(("resub", rx, repl))
            v = s
        elif isinstance(v, Sym) and v.kind == "method" and v.args[1] in ("strip", "lstrip", "rstrip") and not v.args[2]:
            ops_.append(("strip",))   # removes leading / trailing whitespace only: subsumed by the removal
            v = v.args[0]
        elif isinstance(v, Sym) and v.kind == "translate":
            ops_.append(("translate", v.args[1], v.args[2]))
            v = v.args[0]
        elif isinstance(v, Sym) and v.kind == "resub_count":
            ops_.append(("resub_count", v.args[0], v.args[1], v.args[3]))
            v = v.args[2]
        else:
            return ops_, v


class _NoRule:
    samples = ()

    def instance(self, *a, **k):
        pass

    def finding(self, *a, **k):
        pass


def normalisation_rules(ctx, report, prefix="R10", parts=("clean", "norm")):
    """The two rules every property about 'the text after removing whitespace and upper-casing' rests on: clean() removes exactly the
    whitespace and upper-cases, and every constructor carries clean(raw) and never reads the raw parameter again.  C10 owns them; the
    validator properties (C01-C04) run them under their own rule names as premise P0 of their symbolic model (which starts from the
    cleaned text)."""
    prog = ctx.program
    facts = ctx.facts
    raw = SStr(("S", "raw"), clean=False)
    clean_f = prog.get("schwifty.common.clean")
    it = facts.interp()
    o = _one(it, lambda: it.call_func(clean_f, [raw], {}, None), "clean(raw)")
    r = report.rule(f"{prefix}-clean", floor=2, what="clean = remove the whitespace regex, upper-case; the regex matches every whitespace character and only whitespace") \
        if "clean" in parts else _NoRule()
    ops_, core = clean_shape(o.value) if o.kind == "return" else ([], None)
    r.instance({"clean(raw)": repr(o.value)[:200]})
    kinds = sorted(x[0] for x in ops_ if x[0] != "strip")
    if o.kind == "return" and isinstance(o.value, Sym) and o.value.kind == "call":
        raise AnalysisError(f"clean() uses an operation the evaluator does not model on symbolic text ({o.value!r}): cannot decide")
    if o.kind == "return" and core == raw and kinds == ["translate", "upper"]:
        # whitespace removed through a deletion table: it must contain every whitespace character and nothing else
        tr = next(x for x in ops_ if x[0] == "translate")
        deleted, mapped = tr[1], tr[2]
        import sys as _sys
        allspace = {chr(c) for c in range(_sys.maxunicode + 1) if chr(c).isspace()}
        r.instance({"deletion table": sorted(f"U+{ord(c):04X}" for c in deleted), "whitespace code points": len(allspace)})
        missing = sorted(allspace - set(deleted))
        extra = sorted(set(deleted) - allspace)
        if mapped:
            r.finding("clean:mapping", f"clean() maps characters {mapped!r} besides removing whitespace", clean_f.where)
        if missing:
            r.finding("clean:whitespace", f"the deletion table of clean() lacks {len(missing)} whitespace character(s), e.g. U+{ord(missing[0]):04X}; such a character "
                      "survives clean() and changes the outcome", clean_f.where, witness=f"U+{ord(missing[0]):04X}")
        if extra:
            r.finding("clean:payload", f"clean() also deletes the non-whitespace character {extra[0]!r}", clean_f.where, witness=extra[0])
    elif o.kind != "return" or core != raw or kinds != ["resub", "upper"]:
        r.finding("clean:shape", f"clean(raw) evaluates to {o.value!r}; expected upper-casing and one removal of the whitespace pattern applied to the raw text", clean_f.where)
    else:
        sub = next(x for x in ops_ if x[0] == "resub")
        rx, repl = sub[1], sub[2]
        if repl != "":
            r.finding("clean:replacement", f"whitespace is replaced by {repl!r}, not removed", clean_f.where)
        rg = Regex(rx.pattern, rx.flags)
        A = Alphabet(rg.raws + [relang.RAW_SPACE_UNI])
        lang = rg.core(A)
        space = A.atoms_of(relang.RAW_SPACE_UNI)
        single = DFA.single(A, space)
        missing = single.minus(lang)
        r.instance({"pattern": rx.pattern, "whitespace code points": sum(A.atom_count[a] for a in space)})
        if not missing.is_empty():
            w = missing.witness()
            r.finding("clean:whitespace", f"the pattern {rx.pattern!r} does not match the whitespace character U+{ord(w[1]):04X}; such a character survives clean() "
                      "and changes the outcome", clean_f.where, witness=f"U+{ord(w[1]):04X}")
        nonspace = DFA.any_string(A).minus(DFA.chars_in(A, space))
        # any match containing a non-whitespace character would delete payload characters
        bad = lang.intersect(DFA.any_string(A).concat(DFA.single(A, A.all_atoms - space)).concat(DFA.any_string(A)))
        if not bad.is_empty():
            w = bad.witness()
            r.finding("clean:payload", f"the pattern {rx.pattern!r} also removes non-whitespace text such as {w[1]!r}", clean_f.where, witness=w[1])
        if lang.start in lang.accept and False:
            pass
        up_first = ops_[0][0] == "resub"  # outermost operation listed first
        r.instance({"order": "upper(remove(raw))" if not up_first else "remove(upper(raw))"})

    # ------------------------------------------------------------------ R10-norm
    r = report.rule(f"{prefix}-norm", floor=3, what="every constructor yields an object whose value is clean(raw); the raw parameter is not read afterwards")
    want = o.value
    for q, args, kw in (("schwifty.iban.IBAN", [raw], {"allow_invalid": True}), ("schwifty.bic.BIC", [raw], {"allow_invalid": True}),
                        ("schwifty.bban.BBAN", ["XY", raw], {})):
        cls = prog.get(q)
        it2 = facts.interp()
        try:
            outs = [x for x in it2.explore(lambda: it2.instantiate(cls, list(args), dict(kw), None), max_paths=500) if x.kind != "infeasible"]
        except (CannotEvaluate, PathLimit) as e:
            raise AnalysisError(f"cannot evaluate construction of {cls.short}: {e}")
        vals = {repr(x.value.strval) if x.kind == "return" and isinstance(x.value, Obj) else f"{x.kind}:{x.value!r}" for x in outs}
        r.instance({"class": q, "value": sorted(vals)[:2]})
        # a construction with validation off that raises on a condition over the un-normalised text: white space / letter case decide the outcome
        want_repr = repr(want)
        for x in outs:
            if x.kind != "raise":
                continue
            dep = None
            for ev in x.events:
                if ev.get("kind") != "compare":
                    continue
                for side in ("left", "right"):
                    txt = repr(ev.get(side)).replace(want_repr, "CLEAN")
                    if "SStr('S', 'raw')" in txt:
                        dep = (txt, ev.get("op"), repr(ev.get("right" if side == "left" else "left")), ev.get("func"))
                        break
                if dep:
                    break
            if dep:
                where = getattr(x.value, "where", None) or cls.where
                r.finding(f"{cls.short}:raw-condition", f"{cls.short}(raw) can raise {getattr(x.value, 'name', x.value)} on a condition over the text as typed, before normalisation "
                          f"({dep[0]} {dep[1]} {dep[2]} in {dep[3]}): white space or letter case decide whether the text is accepted", where)
                break
        for x in outs:
            if x.kind == "return" and isinstance(x.value, Obj):
                if x.value.strval != want:
                    r.finding(f"{cls.short}:value", f"{cls.short}(raw) carries {x.value.strval!r}, not clean(raw) = {want!r}", cls.where)
                    break
        init = cls.lookup(prog, "__init__")
        if init is not None and init[1] == "method":
            params = init[2].params()
            textparam = params[-1] if cls.name == "BBAN" and len(params) >= 3 else (params[1] if len(params) > 1 else None)
            if textparam and any(isinstance(n, ast.Name) and n.id == textparam and isinstance(n.ctx, ast.Load) for n in ast.walk(init[2].node)):
                r.finding(f"{cls.short}.__init__:raw", f"{cls.short}.__init__ reads its raw text parameter {textparam!r}; the un-normalised text must not influence the object",
                          init[2].where)

    return o, ops_, kinds


def run(ctx, report):
    prog = ctx.program
    facts = ctx.facts
    report.explanation = (
        "clean() is evaluated on a symbolic raw text: its result must be the raw text with one regex substitution by '' and upper() applied; the regex is "
        "shown (on automata) to match every single whitespace character of str.isspace and nothing but whitespace. Every constructor of IBAN / BIC / BBAN is "
        "evaluated symbolically and must carry exactly clean(raw) as its value and never read the raw parameter again. formatted is evaluated on tagged "
        "strings of every length and must be the groups of four / the four parts joined by one character that clean() removes."
    )
    o, ops_, kinds = normalisation_rules(ctx, report, "R10")
    raw = SStr(("S", "raw"), clean=False)
    # ------------------------------------------------------------------ R10-components: the other place where text enters - generation
    from ..algo_eval import country_fields, struct_positions
    from ..gen_eval import GUARDED, GenHarness, pattern
    from ..par import replay, run_recorded
    reg = ctx.registry
    r_comp = report.rule("R10-components", floor=100, what="IBAN.generate / BBAN.from_components give the same result for every whitespace / letter-case variant of the components (also of a combined bank+branch code)")
    countries = [cc for cc in sorted(reg.countries) if reg.positions(cc) and struct_positions(reg, cc)]
    h = GenHarness(ctx)

    def comp_body(cc, rules):
        rc = rules["R10-components"]
        fields = country_fields(reg, cc)
        full = {c: pattern(fields[c][2], salt=3 * i) for i, c in enumerate(GUARDED) if c in fields}
        bases = [("separate", full)]
        if "bank_code" in fields and "branch_code" in fields:
            comb = dict(full)
            comb["bank_code"] = full["bank_code"] + full["branch_code"]
            comb.pop("branch_code")
            bases.append(("combined bank+branch", comb))

        def variants(vals):
            yield "spaces inside", {c: " ".join([v[: len(v) // 2], v[len(v) // 2:]]) for c, v in vals.items()}
            yield "lower case, surrounding and no-break spaces", {c: "\u00a0" + v.lower() + " \t" for c, v in vals.items()}

        def show(res):
            return res[1] if res[0] == "ret" else f"raises {res[1].name}"

        for label, vals in bases:
            ref = h.from_components(cc, **vals)
            for vlabel, vv in variants(vals):
                got = h.from_components(cc, **vv)
                rc.instance({"country": cc, "form": label, "variant": vlabel} if cc == "GB" else None)
                if show(got) != show(ref):
                    rc.finding(f"from_components[{cc}]:{label}", f"{cc} ({label}): components {vals} give {show(ref)!r}, the variant with {vlabel} {vv} gives {show(got)!r}",
                               h.bban.methods["from_components"].where, witness={"country": cc, **vv})
                    return

    for recs, _ in run_recorded(["R10-components"], comp_body, countries):
        replay({"R10-components": r_comp}, recs, cap=6)

    # ------------------------------------------------------------------ R10-format
    r = report.rule("R10-format", floor=30, what="formatted = compact form in groups of four (IBAN) / the four parts (BIC) joined by one removed character")
    iban = prog.get("schwifty.iban.IBAN")
    bic = prog.get("schwifty.bic.BIC")
    it3 = facts.interp()
    removed = None
    if o.kind == "return" and kinds == ["resub", "upper"]:
        removed = next(x for x in ops_ if x[0] == "resub")[1]
    import re as _re
    for n in range(0, 41):
        text = TAGS[:n]
        obj = Obj(iban, strval=text)
        res = _one(it3, lambda: it3.getattr(obj, "formatted"), "IBAN.formatted")
        want_f = " ".join(text[i:i + 4] for i in range(0, n, 4))
        r.instance({"length": n, "formatted": res.value} if n in (0, 5, 22) else None)
        if res.kind != "return" or res.value != want_f:
            r.finding("IBAN.formatted", f"a compact form of length {n} is formatted as {res.value!r}; groups of four separated by single spaces give {want_f!r}",
                      iban.methods["formatted"].where if "formatted" in iban.methods else iban.where, witness=text)
            break
    for n in (8, 11):
        text = TAGS[:n]
        obj = Obj(bic, strval=text)
        res = _one(it3, lambda: it3.getattr(obj, "formatted"), "BIC.formatted")
        parts = [text[0:4], text[4:6], text[6:8]] + ([text[8:11]] if n == 11 else [])
        want_f = " ".join(parts)
        r.instance({"length": n, "formatted": res.value})
        if res.kind != "return" or res.value != want_f:
            r.finding("BIC.formatted", f"a BIC of length {n} is formatted as {res.value!r}; its parts separated by single spaces give {want_f!r}",
                      bic.methods["formatted"].where if "formatted" in bic.methods else bic.where, witness=text)
    # the same on abstract texts whose positions are distinct objects: value-dependent special cases show up as extra paths
    from ..values import AStr, CharSet, ASCII_DIGITS, ASCII_UPPER
    r = report.rule("R10-format-abstract", floor=10, what="formatted on abstract texts (any letters / digits): every path yields the parts in order, single separators")
    for cls, lengths in ((iban, list(range(0, 41, 3)) + [22, 34]), (bic, [8, 11])):
        for n in lengths:
            tags = [CharSet(ASCII_DIGITS + ASCII_UPPER) for _ in range(n)]
            it4 = facts.interp()

            def thunk():
                obj = Obj(cls, strval=AStr(tags) if n else "")
                return it4.getattr(obj, "formatted")

            try:
                outs = [x for x in it4.explore(thunk, max_paths=500) if x.kind != "infeasible"]
            except (CannotEvaluate, PathLimit) as e:
                raise AnalysisError(f"cannot evaluate {cls.short}.formatted on an abstract text: {e}")
            if cls is iban:
                groups = [tags[i:i + 4] for i in range(0, n, 4)]
            else:
                groups = [tags[0:4], tags[4:6], tags[6:8]] + ([tags[8:11]] if n == 11 else [])
            want = []
            for gi, g in enumerate(groups):
                if gi:
                    want.append(" ")
                want.extend(g)
            r.instance({"class": cls.short, "length": n, "paths": len(outs)} if n in (8, 11, 22) else None)
            for x in outs:
                got = x.value
                seq = list(got.pos) if isinstance(got, AStr) else (list(got) if isinstance(got, str) else None)
                ok = x.kind == "return" and seq is not None and len(seq) == len(want) and all(a is b or a == b == " " for a, b in zip(seq, want))
                if not ok:
                    shown = f"raises {x.value.name}" if x.kind == "raise" else f"a text of {len(seq) if seq is not None else '?'} characters"
                    cond = "; ".join(f"{ev['left']!r} {ev['op']} {ev['right']!r}" for ev in x.events if ev["kind"] == "compare" and isinstance(ev.get("right"), str) and ev["right"])[:200]
                    r.finding(f"{cls.short}.formatted:value-dependent", f"{cls.short}.formatted of a {n}-character text can yield {shown} instead of its {len(groups)} parts joined by single "
                              f"spaces ({len(want)} characters) — on the path taken when {cond or 'a value-dependent condition holds'}",
                              cls.methods["formatted"].where if "formatted" in cls.methods else cls.where, witness=cond)
                    break
    report.not_decided += ["that str.upper() maps no character to whitespace or to an ASCII lower-case letter (library fact, relied on by the clean universe)"]
    report.assumptions += ["formatted is parametric in the characters (it only slices and joins): one tagged string per length decides all strings of that length"]
