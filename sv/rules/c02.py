"""C02 — IBAN check digits are computed correctly, uniquely and canonically."""
from __future__ import annotations

from ..srcmodel import AnalysisError

from ..vmodel import IbanModel
from .. import iban_rules as R


def run(ctx, report):
    from .premises import accessor_entries, stateless_premise
    stateless_premise(ctx, report, 'R02-P1-stateless', ['iban-validate', 'iban-build'], extra=None, stop=('schwifty.bban.BBAN.validate_national_checksum',), without_national=True, outside=("schwifty.bic",))
    # premise of the symbolic model below (it starts from the cleaned text): the object carries clean(raw), and nothing reads the
    # raw parameter again (what clean() removes is C10's / C01's concern, not this property's).
    from .c10 import normalisation_rules
    try:
        normalisation_rules(ctx, report, "R02-P0", parts=("norm",))
    except AnalysisError as e:
        report.notes.append(f"normalisation premise not decided: {e}")
    m = IbanModel(ctx, with_validate=False)
    report.explanation = (
        "The two arithmetic conditions of the validator are extracted from the symbolic paths as opaque terms and evaluated for every residue: "
        "the recomputed digits are 98 - (100 N mod 97), always two digits in 02..98, and compared with characters 3-4; acceptance requires them "
        "(so 00, 01, 99 aliases are rejected) for every country and every valuation; from_bban assembles country + digits + BBAN with the same formula."
    )
    R.analysed(m, report)
    R.rule_arith(m, report, "R02-const-range")
    R.rule_accept(m, report, "R02-both", entries=[("init", False)])
    R.rule_from_bban(m, report, "R02-agree")
    R.rule_numerify(m, report, "R02-numerify")
    report.not_decided += [
        "the number-theoretic identity that 98 - (100 N mod 97) makes the whole number leave remainder 1 is a paper argument from the checked constants; "
        "'exactly one pair accepted' is decided as: at most one (recomputed digits are a function of country and BBAN, and are required), and that one is the computed pair",
    ]
