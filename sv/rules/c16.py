"""C16 — IBAN, BIC and BBAN are string values: equality, hashing, order and copies agree."""
from __future__ import annotations

import ast

from ..interp import CannotEvaluate, PathLimit
from ..srcmodel import AnalysisError, Class, dotted
from ..algo_eval import is_library_exc
from ..validators import S
from ..values import ClsRef, Obj, SStr, Sym

VALUE_CLASSES = ("schwifty.iban.IBAN", "schwifty.bic.BIC", "schwifty.bban.BBAN")


def _concrete(it, thunk, what):
    try:
        outs = [o for o in it.explore(thunk, max_paths=64) if o.kind != "infeasible"]
    except (CannotEvaluate, PathLimit) as e:
        raise AnalysisError(f"cannot evaluate {what}: {e}")
    if len(outs) != 1:
        raise AnalysisError(f"{what} is not deterministic on concrete input")
    return outs[0]


def run(ctx, report):
    prog = ctx.program
    facts = ctx.facts
    base = prog.get("schwifty.common.Base")
    if not isinstance(base, Class):
        raise AnalysisError("anchor vanished: schwifty.common.Base")
    classes = [prog.get(q) for q in VALUE_CLASSES]
    report.explanation = (
        "Protocol conformance decided on the class table: comparison / hash methods are defined together on the compact string and evaluated on a "
        "family of concrete pairs through the abstract evaluator; the arity of every __new__ is checked against what the default copy / pickle protocol "
        "(object.__reduce_ex__ + str.__getnewargs__) supplies; __deepcopy__ is evaluated for each concrete class, including objects built with validation off."
    )
    report.analysed = {"classes": [c.qualname for c in classes]}

    # ------------------------------------------------------------------ R16-eqhash
    r = report.rule("R16-eqhash", floor=4, what="__eq__/__hash__/__lt__ defined together, all on str(self); no subclass overrides only part of them")
    trio = ("__eq__", "__hash__", "__lt__")
    # every package class in the MRO of a value class (Base, mixins, the class itself) defines none or all three of them
    mro_classes = []
    for c in classes:
        for k in c.mro(prog):
            if k not in mro_classes:
                mro_classes.append(k)
    for c in mro_classes:
        have = [n for n in trio if n in c.methods]
        r.instance({"class": c.qualname, "defines": have})
        if have and len(have) != 3:
            r.finding(f"{c.short}:partial", f"{c.short} defines {have} but not {[n for n in trio if n not in have]}; equality, hashing and ordering would disagree", c.where)
    # ... and for every value class the three resolve (through the MRO, ahead of str) to one and the same package class
    owners = {}
    for c in classes:
        found = {n: (c.lookup(prog, n) or (None,))[0] for n in trio}
        owners[c.qualname] = found
    resolved = all(all(v is not None for v in f.values()) and len({id(v) for v in f.values()}) == 1 for f in owners.values())
    owner = next(iter(next(iter(owners.values())).values())) if resolved else None
    if not resolved:
        r.finding("Base:missing", "the value classes no longer inherit __eq__, __hash__ and __lt__ together from one class ahead of str", base.where)
    else:
        ordering_holder = [k for k in mro_classes if any((dotted(d) or "").endswith("total_ordering") for d in k.decorators)]
        if not ordering_holder and not all(n in owner.methods for n in ("__le__", "__gt__", "__ge__")):
            r.finding("Base:ordering", "Base defines __lt__ only: <=, >, >= fall back to str's and can disagree (no total_ordering)", base.where)
        it = facts.interp()
        pairs = [("AB", "AB"), ("AB", "AC"), ("AC", "AB"), ("A", "AB"), ("", ""), ("DE89", "de89"), ("Z", "A")]
        for cls in classes:
            for a, b in pairs:
                oa = Obj(cls, strval=a)
                ob = Obj(cls, strval=b)
                for other in (ob, b):
                    eq = _concrete(it, lambda: it.call(it.getattr(oa, "__eq__"), [other], {}), f"{cls.short}.__eq__")
                    lt = _concrete(it, lambda: it.call(it.getattr(oa, "__lt__"), [other], {}), f"{cls.short}.__lt__")
                    r.instance(None)
                    if eq.kind != "return" or eq.value != (a == b):
                        r.finding(f"{cls.short}.__eq__", f"{cls.short}({a!r}) == {b!r} evaluates to {eq.value!r}; the compact strings compare {a == b}", cls.where, witness=(a, b))
                    if lt.kind != "return" or lt.value != (a < b):
                        r.finding(f"{cls.short}.__lt__", f"{cls.short}({a!r}) < {b!r} evaluates to {lt.value!r}; the compact strings compare {a < b}", cls.where, witness=(a, b))
                ha = _concrete(it, lambda: it.call(it.getattr(oa, "__hash__"), [], {}), f"{cls.short}.__hash__")
                if ha.kind != "return" or ha.value != Sym("hash", a):
                    r.finding(f"{cls.short}.__hash__", f"hash({cls.short}({a!r})) is {ha.value!r}, not hash of the compact string", cls.where, witness=a)

    # ------------------------------------------------------------------ R16-newargs
    r = report.rule("R16-newargs", floor=3, what="a str subclass whose __new__ needs other than one positional argument defines __getnewargs__ / __reduce__")
    for cls in classes:
        new = cls.lookup(prog, "__new__")
        required, total = 1, 1
        if new is not None and new[1] == "method":
            a = new[2].node.args
            pos = [x.arg for x in a.posonlyargs + a.args][1:]
            required = len(pos) - len(a.defaults)
            total = len(pos) if not a.vararg else 99
        protocol = [n for n in ("__getnewargs__", "__getnewargs_ex__", "__reduce__", "__reduce_ex__") if cls.lookup(prog, n) is not None]
        copyhooks = [n for n in ("__copy__",) if cls.lookup(prog, n) is not None]
        r.instance({"class": cls.qualname, "__new__ positional": (required, total), "protocol methods": protocol})
        if not (required <= 1 <= total) and not protocol:
            r.finding(f"{cls.short}.__new__", f"{cls.short}.__new__ requires {required} positional argument(s) but the default copy / pickle protocol supplies one "
                      f"(str.__getnewargs__): copy.copy, pickle of a {cls.short} and unpickling of any object holding one raise TypeError",
                      new[2].where if new and new[1] == "method" else cls.where,
                      witness=f"copy.copy({cls.short}(...))")
        if protocol:
            _check_getnewargs(ctx, r, cls, required, total)

    # ------------------------------------------------------------------ R16-deepcopy
    r = report.rule("R16-deepcopy", floor=3, what="__deepcopy__ rebuilds every concrete class (arity) without re-validating, restoring the attributes")
    from ..validators import ValidatorAnalysis
    va = ValidatorAnalysis(facts)
    for cls, op in [(c, o) for c in classes for o in ("deepcopy", "copy")]:
        dc = cls.lookup(prog, "__deepcopy__")
        if dc is None or dc[1] != "method":
            dc = (cls, "method", cls.lookup(prog, "__new__")[2] if cls.lookup(prog, "__new__") else None)
        # symbolic object built with validation off, copied through copy.deepcopy / copy.copy (= the pickle reconstruction path)
        res = _deepcopy_paths(ctx, va, cls, op)
        r.instance({"class": cls.qualname, "operation": op, "outcomes": sorted({(p.kind, p.exc_name) for p in res})})
        opname = "copy.deepcopy" if op == "deepcopy" else "copy.copy / pickle"
        where_ = dc[2].where if dc[2] is not None else cls.where
        lib_excs, other_excs = {}, {}
        for p in res:
            if p.kind == "raise":
                (lib_excs if is_library_exc(prog, p.value) else other_excs).setdefault(p.value.name, p)
            elif isinstance(p.value, Obj):
                orig_keys = p.orig_attrs
                if set(p.value.attrs) != set(orig_keys) or p.value.cls is not cls:
                    r.finding(f"{cls.short}.{op}:state", f"{opname} of a {cls.short} yields {p.value.cls.short} with attributes {sorted(p.value.attrs)}, "
                              f"original has {sorted(orig_keys)}", where_)
                elif p.value.strval != S:
                    r.finding(f"{cls.short}.{op}:value", f"{opname} of a {cls.short} carries the text {p.value.strval!r}, not the original's", where_)
            else:
                r.finding(f"{cls.short}.{op}:result", f"{opname} of a {cls.short} returns {p.value!r}", where_)
        if lib_excs:
            p = next(iter(lib_excs.values()))
            w = p.lang.witness()
            c_ = f"{cls.short}.__deepcopy__:revalidates" if op == "deepcopy" else f"{cls.short}.copy:revalidates"
            r.finding(c_, f"{opname} of a {cls.short} re-runs validation (can raise {sorted(lib_excs)}), so an object built "
                      "with validation off cannot be copied", where_, witness=(w[1] if w else None))
        for name, p in other_excs.items():
            e = p.value
            c_ = f"{cls.short}.__deepcopy__:{name}" if op == "deepcopy" else f"{cls.short}.copy:{name}"
            r.finding(c_, f"{opname} of a {cls.short} raises {name} ({e.args[0] if e.args else ''}) at {e.where}", where_)
    report.not_decided += ["comparison operators inherited from str for operands the package does not define (library model)",
                           "the copy / pickle protocol itself is modelled (object.__reduce_ex__ -> cls.__new__(cls, *__getnewargs__()) then __dict__ update), not executed"]


def _check_getnewargs(ctx, rule, cls, required, total):
    prog = ctx.program
    g = cls.lookup(prog, "__getnewargs__")
    if g is None or g[1] != "method":
        return
    it = ctx.facts.interp()
    obj = Obj(cls, strval="ABCDEF")
    obj.attrs["country_code"] = "XY"
    try:
        outs = [o for o in it.explore(lambda: it.call(it.getattr(obj, "__getnewargs__"), [], {}), max_paths=8) if o.kind != "infeasible"]
    except (CannotEvaluate, PathLimit) as e:
        raise AnalysisError(f"cannot evaluate {cls.short}.__getnewargs__: {e}")
    for o in outs:
        if o.kind != "return" or not isinstance(o.value, tuple):
            rule.finding(f"{cls.short}.__getnewargs__", f"{cls.short}.__getnewargs__ does not return a tuple ({o.value!r})", g[2].where)
            continue
        n = len(o.value)
        if not (required <= n <= total):
            rule.finding(f"{cls.short}.__getnewargs__", f"{cls.short}.__getnewargs__ returns {n} value(s), __new__ takes {required}..{total}", g[2].where)
        elif cls.name == "BBAN" and o.value != ("XY", "ABCDEF"):
            rule.finding(f"{cls.short}.__getnewargs__", f"{cls.short}.__getnewargs__ returns {o.value!r} for BBAN('XY', 'ABCDEF'); a copy would not equal the original", g[2].where)


def _deepcopy_paths(ctx, va, cls, op="deepcopy"):
    prog = ctx.program
    facts = ctx.facts
    from ..vmodel import nat_intrinsic

    def run():
        th = va.theory()
        it = facts.interp(theory=th, max_paths=20000)
        for q, summ in va.summaries().items():
            th.safe_raws[q] = (summ["raw"], summ["empty_exc"] is None)
            exc = next(iter(summ["unsafe"].values()), None) or summ["empty_exc"]
            it.opaque_summaries[q] = {"exc": exc}
        f = prog.find("schwifty.bban.BBAN.validate_national_checksum")
        if f is not None:
            it.intrinsics[f.qualname] = nat_intrinsic
        holder = {}

        def thunk():
            obj = Obj(cls, strval=S)
            init = cls.lookup(prog, "__init__")
            if cls.name == "BBAN":
                obj.attrs["country_code"] = SStr(("S", "cc"))
            elif init is not None and init[1] == "method":
                it.call_func(init[2], [obj, Sym("raw_text")], {"allow_invalid": True}, None)
            holder["attrs"] = dict(obj.attrs)
            from ..values import ExtRef
            return it.call(ExtRef("copy.deepcopy" if op == "deepcopy" else "copy.copy"), [obj], {})

        try:
            outs = it.explore(thunk)
        except (CannotEvaluate, PathLimit) as e:
            raise AnalysisError(f"cannot evaluate {cls.short}.__deepcopy__: {e}")
        from ..validators import VPath
        res = []
        for o in outs:
            if o.kind == "infeasible":
                continue
            p = VPath(o)
            p.orig_attrs = holder.get("attrs", {})
            res.append(p)
        return res

    return va._with_refinement(run)
