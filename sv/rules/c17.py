"""C17 — the bundled country and bank data are internally consistent (exhaustive data walk)."""
from __future__ import annotations

import json
import os
import sys

from .. import relang
from ..algo_eval import accepts_of, component_value, explore_method, is_library_exc, struct_positions
from ..datamodel import parse_structure
from ..srcmodel import AnalysisError
from ..tables.iso3166 import ALPHA2


def iso3166_codes():
    """Prefer the installed pycountry database (the file BIC validation consults), read as data."""
    for p in sys.path:
        f = os.path.join(p, "pycountry", "databases", "iso3166-1.json")
        if os.path.isfile(f):
            try:
                with open(f, encoding="utf-8") as fp:
                    d = json.load(fp)
                return frozenset(x["alpha_2"] for x in d["3166-1"]), f
            except Exception:
                break
    return ALPHA2, "embedded table sv/tables/iso3166.py"


_CLASS_OK = {
    "n": lambda c: c in "0123456789",
    "a": lambda c: "A" <= c <= "Z",
    "c": lambda c: c in "0123456789" or "A" <= c <= "Z",
    "e": lambda c: c == " ",
}


def run(ctx, report):
    reg = ctx.registry
    facts = ctx.facts
    comps = set(facts.components().values())
    report.explanation = (
        "Exhaustive walk over the effective country table and bank list of the tree (own loader: file-name order, "
        "deep later-wins merge, v2 expansion). Every clause of C17 is decided for every entry; nothing is sampled."
    )
    report.analysed = {"countries": len(reg.countries), "bank_entries": len(reg.banks),
                       "iban_files": reg.files["iban"], "bank_files": len(reg.files["bank"])}
    r_len = report.rule("R17-len", floor=100, what="structure string parses, expands to bban_length; iban_length = bban_length + 4 <= 34")
    r_pos = report.rule("R17-pos", floor=100, what="component ranges inside the BBAN, pairwise disjoint, known components, lookup components defined")
    r_algo = report.rule("R17-algo", floor=20, what="national algorithms read only fields the country defines")
    r_bank = report.rule("R17-bank", floor=20000, what="bank entry: known country, BIC empty or ISO 9362 + ISO 3166, bank code fits the lookup field")
    r_reach = report.rule("R17-reach", floor=20000, what="bank code is cut back out of a conforming BBAN at the lookup components")

    # ---------------------------------------------------------------- countries
    for cc in sorted(reg.countries):
        spec = reg.countries[cc]
        where = f"schwifty/iban_registry: {cc}"
        ok = True
        for k in ("bban_spec", "bban_length", "iban_length"):
            if k not in spec:
                r_len.finding(f"{cc}.{k}", f"country {cc} has no {k!r}", where)
                ok = False
        r_len.instance({"country": cc, "bban_spec": spec.get("bban_spec"), "bban_length": spec.get("bban_length")})
        if not ok:
            continue
        st = parse_structure(spec["bban_spec"]) if isinstance(spec["bban_spec"], str) else None
        if st is None:
            r_len.finding(f"{cc}.bban_spec", f"structure string {spec['bban_spec']!r} does not parse as (N[!]class)*", where)
            continue
        if any(isinstance(x, tuple) for x in st):
            maxlen = sum(x[1] if isinstance(x, tuple) else 1 for x in st)
            r_len.finding(f"{cc}.bban_spec", f"structure {spec['bban_spec']!r} has a variable-length field (max {maxlen}); "
                          f"it cannot describe exactly bban_length={spec['bban_length']}", where)
            continue
        if not isinstance(spec["bban_length"], int) or len(st) != spec["bban_length"]:
            r_len.finding(f"{cc}.bban_length", f"structure {spec['bban_spec']!r} describes {len(st)} characters, bban_length says {spec['bban_length']}", where)
        if not isinstance(spec["iban_length"], int) or spec["iban_length"] != spec["bban_length"] + 4:
            r_len.finding(f"{cc}.iban_length", f"iban_length {spec['iban_length']} != bban_length {spec['bban_length']} + 4", where)
        elif spec["iban_length"] > 34:
            r_len.finding(f"{cc}.iban_length", f"iban_length {spec['iban_length']} exceeds 34", where)
        if len(cc) != 2 or not cc.isascii() or not cc.isalpha() or not cc.isupper():
            r_len.finding(f"{cc}", f"country key {cc!r} is not two ASCII upper-case letters", where)
        # positions
        pos = spec.get("positions")
        if pos is None:
            r_pos.instance({"country": cc, "positions": None}, nontrivial=False)
        else:
            r_pos.instance({"country": cc, "positions": pos})
            if not isinstance(pos, dict):
                r_pos.finding(f"{cc}.positions", "positions is not an object", where)
                continue
            good = {}
            for comp, rng in pos.items():
                if comp not in comps:
                    r_pos.finding(f"{cc}.positions.{comp}", f"unknown component {comp!r} (not a member of Component); it would be silently ignored", where)
                    continue
                if not (isinstance(rng, list) and len(rng) == 2 and all(isinstance(x, int) and not isinstance(x, bool) for x in rng)):
                    r_pos.finding(f"{cc}.positions.{comp}", f"range {rng!r} is not [start, end]", where)
                    continue
                a, b = rng
                if not (0 <= a < b <= spec["bban_length"]):
                    r_pos.finding(f"{cc}.positions.{comp}", f"range [{a}, {b}) is empty or outside the BBAN of length {spec['bban_length']}", where)
                    continue
                good[comp] = (a, b)
            items = sorted(good.items(), key=lambda kv: kv[1])
            for (c1, (a1, b1)), (c2, (a2, b2)) in zip(items, items[1:]):
                if a2 < b1:
                    r_pos.finding(f"{cc}.positions.{c1}/{c2}", f"{c1} [{a1},{b1}) overlaps {c2} [{a2},{b2})", where)
        lookup = spec.get("bic_lookup_components")
        if lookup is not None:
            if not isinstance(lookup, list) or not lookup:
                r_pos.finding(f"{cc}.bic_lookup_components", "not a non-empty list", where)
            else:
                for comp in lookup:
                    if comp not in comps or comp not in (pos or {}):
                        r_pos.finding(f"{cc}.bic_lookup_components.{comp}", f"lookup component {comp!r} has no position in {cc}", where)

    # ---------------------------------------------------------------- algorithms
    regs = facts.registrations()
    national = [r for r in regs if r.name == "default"]
    for r in national:
        cc = r.prefix
        inst = {"country": cc, "class": r.cls.qualname}
        if cc not in reg.countries:
            r_algo.instance(inst)
            r_algo.finding(f"register:{cc}", f"algorithm {r.cls.qualname} is registered for {cc!r}, which is not a country of the table", r.where)
            continue
        it = facts.interp()
        obj = it.instantiate(r.cls, [], {}, None)
        acc = accepts_of(it, obj)
        pos = reg.positions(cc)
        missing = [c for c in acc if c not in pos]
        inst["accepts"] = acc
        inst["undefined"] = missing
        r_algo.instance(inst)
        if len(missing) == len(acc):
            r_algo.finding(f"{cc}:accepts", f"{r.cls.qualname} reads {acc} but {cc} defines none of them", r.where)
            continue
        vfunc = obj.cls.lookup(ctx.program, "validate")
        reads_expected = vfunc is not None and vfunc[1] == "method" and _reads_param(vfunc[2], 2)
        if reads_expected and "national_checksum_digits" not in pos:
            r_algo.finding(f"{cc}:expected", f"{r.cls.qualname}.validate compares with the national check digits but {cc} defines no such field", r.where)
        if missing and struct_positions(reg, cc) is not None:
            # "reads only fields the country defines", decided by behaviour: an undefined field is handed over as ''.  It is not *read* when the
            # algorithm's outcomes are the same with the '' entries left out of the list (a concatenating algorithm such as the generic ISO 7064
            # one, registered for countries with and without a branch code); an algorithm that takes its fields by position is judged otherwise.
            comps_v = [component_value(reg, cc, c) for c in acc]
            exp = component_value(reg, cc, "national_checksum_digits")
            kept = [v for c, v in zip(acc, comps_v) if c not in missing]

            def summary(vals):
                _, outs_ = explore_method(facts, r, "validate", lambda it_, o: [list(vals), exp])
                return sorted((o.kind, o.value.name if o.kind == "raise" else repr(o.value)) for o in outs_ if o.kind != "infeasible")
            with_empty, without = summary(comps_v), summary(kept)
            inst["undefined fields are inert"] = with_empty == without
            if with_empty != without:
                r_algo.finding(f"{cc}:reads-undefined", f"{r.cls.qualname} reads {missing}, which {cc} does not define (the table publishes {sorted(pos)}): "
                               f"it takes its fields by position, is handed '' for the undefined one and so judges something other than the country's fields "
                               f"(outcomes with the '' entries left out: {[k for k, _ in without][:3]})", r.where,
                               witness={"country": cc, "accepts": acc, "defined": sorted(pos)})
        if missing and struct_positions(reg, cc) is not None:
            comps_v = [component_value(reg, cc, c) for c in acc]
            exp = component_value(reg, cc, "national_checksum_digits")
            _, outs = explore_method(facts, r, "validate", lambda it_, o: [list(comps_v), exp])
            bad = [o for o in outs if o.kind == "raise" and not is_library_exc(ctx.program, o.value)]
            if bad:
                e = bad[0].value
                r_algo.finding(f"{cc}:undefined-field", f"{r.cls.qualname} reads {missing} which {cc} does not define; with the field "
                               f"empty the algorithm can raise {e.name} at {e.where}", r.where)

    # ---------------------------------------------------------------- bank entries
    iso, iso_src = iso3166_codes()
    report.trusted.append(f"ISO 3166-1 alpha-2 list: {iso_src} ({len(iso)} codes)")
    lookup_fields = {}
    for cc in reg.countries:
        st = struct_positions(reg, cc)
        pos = reg.positions(cc)
        comps_l = reg.lookup_components(cc)
        if st is None or not isinstance(comps_l, list) or any(c not in pos for c in comps_l):
            lookup_fields[cc] = None
            continue
        classes = []
        okr = True
        for c in comps_l:
            rng = pos[c]
            if not (isinstance(rng, list) and len(rng) == 2 and 0 <= rng[0] < rng[1] <= len(st)):
                okr = False
                break
            classes.extend(st[rng[0]:rng[1]])
        lookup_fields[cc] = classes if okr else None
    n_sample = 0
    for e, (fn, idx) in zip(reg.banks, reg.bank_origin):
        where = f"schwifty/bank_registry/{fn}[{idx}]"
        cid = f"{fn}[{idx}]"
        r_bank.instance({"file": fn, "index": idx, "entry": {k: e.get(k) for k in ("country_code", "bank_code", "bic")}} if n_sample < 3 else None)
        n_sample += 1
        for k, typ in (("country_code", str), ("bank_code", (str, type(None))), ("bic", (str, type(None))), ("name", str),
                       ("short_name", str), ("primary", bool)):
            # bic / bank_code may be null: every reader treats a falsy value as "empty"
            if k not in e or not isinstance(e[k], typ):
                r_bank.finding(f"{cid}.{k}", f"bank entry lacks field {k!r} of the expected type (readers subscript it unguarded)", where)
        cc = e.get("country_code")
        if cc not in reg.countries:
            r_bank.finding(f"{cid}.country_code", f"country {cc!r} is not in the country table", where)
            continue
        bic = e.get("bic")
        if isinstance(bic, str) and bic:
            ok = len(bic) in (8, 11) and all(c in "0123456789" or "A" <= c <= "Z" for c in bic) and \
                all("A" <= c <= "Z" for c in bic[4:6])
            if not ok:
                r_bank.finding(f"{cid}.bic", f"BIC {bic!r} is not ISO 9362 (8 or 11 of [A-Z0-9], letters at 5-6)", where)
            elif bic[4:6] not in iso:
                r_bank.finding(f"{cid}.bic", f"BIC {bic!r}: country {bic[4:6]!r} is not an ISO 3166-1 alpha-2 code", where)
        if "checksum_algo" in e and cc != "DE":
            r_bank.finding(f"{cid}.checksum_algo", f"checksum_algo on a {cc} entry redirects national validation to an unregistered key", where)
        code = e.get("bank_code")
        r_reach.instance(None)
        if isinstance(code, str) and code:
            field = lookup_fields.get(cc)
            if field is None:
                r_reach.finding(f"{cid}.bank_code", f"{cc} has no usable bank-identifying field, bank code {code!r} can never be looked up from an IBAN", where)
                continue
            if len(code) != len(field):
                r_reach.finding(f"{cid}.bank_code", f"bank code {code!r} has length {len(code)}, the {cc} lookup field is {len(field)} wide", where)
                continue
            badpos = [i for i, (c, cl) in enumerate(zip(code, field)) if not _CLASS_OK[cl](c)]
            if badpos:
                i = badpos[0]
                r_reach.finding(f"{cid}.bank_code", f"bank code {code!r}: character {code[i]!r} at index {i} is not of class {field[i]!r}; no valid {cc} IBAN contains it", where)
    # ------------------------------------------------------------------ R17-cover: no BBAN position is orphaned
    # Every position of a BBAN belongs to a component - except the reserved positions of the two countries whose structure has them
    # (confirmed by reading the table of the pinned tree: TR position 6, MU positions 21-23, 1-based).  A range edited to be one short
    # stays inside the BBAN and overlaps nothing, but leaves a position that no accessor returns and generation fills with '0'.
    RESERVED = {"TR": [5], "MU": [20, 21, 22]}
    r_cover = report.rule("R17-cover", floor=100, what="the component ranges of a country cover its BBAN (frozen exceptions: reserved positions of TR and MU)")
    for cc in sorted(reg.countries):
        pos = reg.positions(cc)
        n = reg.countries[cc].get("bban_length")
        if not pos or not isinstance(n, int):
            continue
        cov = [False] * n
        for k, v in pos.items():
            if isinstance(v, list) and len(v) == 2 and all(isinstance(x, int) for x in v):
                for j in range(max(v[0], 0), min(v[1], n)):
                    cov[j] = True
        gaps = [j for j, c in enumerate(cov) if not c]
        r_cover.instance({"country": cc, "uncovered": gaps} if gaps else None)
        if gaps != RESERVED.get(cc, []):
            r_cover.finding(f"{cc}:cover", f"{cc}: BBAN position(s) {[g + 1 for g in gaps]} (1-based) belong to no component" +
                            (f" (reserved positions are {[g + 1 for g in RESERVED[cc]]})" if cc in RESERVED else "") +
                            "; no accessor returns them and generation fills them with '0'", None, witness={"country": cc, "positions": pos})
    # ------------------------------------------------------------------ R17-found: the lookup code finds listed banks again
    from .c12 import Harness
    r_found = report.rule("R17-found", floor=40, what="a bank entry is found again (bank, BIC) from a structure-conforming IBAN built around its bank code: quick - one entry per country, every all-zero / all-nine code and a seeded sample of 1500 keys; thorough - every key")
    h = Harness(ctx, reg.banks)
    picked = {}
    for e in reg.banks:
        cc, code = e.get("country_code"), e.get("bank_code")
        if not code or cc not in reg.countries or lookup_fields.get(cc) is None:
            continue
        if ctx.tier == "thorough" or cc not in picked or set(code) == {"0"} or set(code) == {"9"}:
            picked.setdefault((cc, code), e)
            if cc not in picked:
                picked[cc] = e
    todo = sorted(k for k in picked if isinstance(k, tuple))
    by_key = reg.index_by_bank_code()
    if ctx.tier != "thorough":
        import random as _random
        rnd = _random.Random(104729 * (ctx.seed + 1))
        rest = sorted(k for k in by_key if k not in picked and k[0] in reg.countries and lookup_fields.get(k[0]) is not None)
        todo = sorted(set(todo) | set(rnd.sample(rest, min(1500, len(rest)))))
    def found_chunk(chunk, rules):
        r_found = rules["R17-found"]
        for cc, code in chunk:
            spec = reg.countries[cc]
            comps_l = reg.lookup_components(cc)
            n = spec["bban_length"]
            bban = ["0"] * n
            pos = 0
            for c in comps_l:
                a, b = spec["positions"][c]
                bban[a:b] = list(code[pos:pos + (b - a)])
                pos += b - a
            if pos != len(code):
                continue
            res = h.iban_lookup(cc, "".join(bban))
            r_found.instance({"country": cc, "bank_code": code} if len(r_found.samples) < 3 else None)
            first = by_key[(cc, code)][0]
            if res[0] != "ret" or res[1][1] is not first:
                got = f"raises {res[1].name}" if res[0] == "exc" else repr(res[1][1])[:120]
                r_found.finding(f"found:{cc}:{code}", f"the listed bank ({cc}, {code!r}) is not found again from the IBAN {cc}00{''.join(bban)}: .bank gives {got}",
                                "schwifty/bban.py", witness=f"{cc}00{''.join(bban)}")

    from ..par import replay, run_recorded
    nchunks = 16 if len(todo) > 64 else 1
    if todo:
        h.iban_lookup(todo[0][0], "0" * reg.countries[todo[0][0]]["bban_length"])   # index models built before the fork
    for recs, _ in run_recorded(["R17-found"], found_chunk, [todo[i::nchunks] for i in range(nchunks)]):
        replay({"R17-found": r_found}, recs, cap=12)
    report.not_decided.append("agreement of the bundled tables with SWIFT's registry / the national bank lists (no oracle in the sandbox)")
    report.assumptions.append("registry files are composed as stated in C18 (checked by the C18 rules against registry.py)")


def _reads_param(func, index):
    import ast
    params = func.params()
    if len(params) <= index:
        return False
    name = params[index]
    return any(isinstance(n, ast.Name) and n.id == name and isinstance(n.ctx, ast.Load) for n in ast.walk(func.node))
