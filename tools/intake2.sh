#!/bin/sh
# intake of a round-2 worktree: tools/intake2.sh C07 name1 name2 name3
P=$1; shift
k=1
for n in "$@"; do
  /verif/tools/seedeval.py "$P-$n" "$P" "/tmp/w2_$P" --k $k | tail -1
  k=$((k+1))
done
