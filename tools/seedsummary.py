#!/usr/bin/env python3
"""Write seeded/SUMMARY.md from the meta.json files (which checks catch which seeded change)."""
import json, os
d = "/verif/seeded"
rows = []
for sid in sorted(os.listdir(d)):
    mp = os.path.join(d, sid, "meta.json")
    if not os.path.exists(mp):
        continue
    m = json.load(open(mp))
    first = ""
    own = m["property"]
    src = m["checks"].get(own) if own in m.get("caught_by", []) else None
    if src is None and m.get("caught_by"):
        src = m["checks"][m["caught_by"][0]]
    if src and src["report"]:
        line = next((l for l in src["report"] if " — " in l), src["report"][0])
        parts = line.split(" ")
        first = " ".join(parts[1:3]) if len(parts) > 2 else line[:60]
    rows.append((sid, own, m.get("confirmed"), m.get("caught_by", []), m.get("undecided", []), first))
with open(os.path.join(d, "SUMMARY.md"), "w") as fp:
    fp.write("# Seeded changes: which checks report them\n\n")
    fp.write("Each change was produced by an independent sub-agent from the property text alone, confirmed here (suite unchanged, demonstration fails with / passes without it),\n")
    fp.write("and run against all 18 quick checks. `own` = the check of the property the change was written against.\n\n")
    fp.write("| seed | written against | caught by | undecided (exit 2) | first reporting rule / construct |\n|---|---|---|---|---|\n")
    for sid, own, conf, caught, undec, first in rows:
        mark = ", ".join(f"**{c}**" if c == own else c for c in caught) or "— none —"
        fp.write(f"| {sid} | {own} | {mark} | {', '.join(undec)} | {first} |\n")
    n = len(rows)
    fp.write(f"\n{n} seeds; caught by at least one check: {sum(1 for r in rows if r[3])}; caught by the check of their own property: {sum(1 for r in rows if r[1] in r[3])}.\n")
print("written", len(rows))
