#!/usr/bin/env python3
"""Apply one textual replacement to a scratch copy of /repo/schwifty and run checks against it.
usage: trymut.py C07[,C06] path/in/repo 'old' 'new' [--tests]"""
import os, shutil, subprocess, sys, tempfile
props, rel, old, new = sys.argv[1:5]
tmp = tempfile.mkdtemp(prefix="svmut_")
try:
    shutil.copytree("/repo/schwifty", os.path.join(tmp, "schwifty"))
    p = os.path.join(tmp, rel)
    s = open(p, encoding="utf-8").read()
    if s.count(old) < 1:
        print("pattern not found"); sys.exit(3)
    open(p, "w", encoding="utf-8").write(s.replace(old, new, 1))
    for prop in props.split(","):
        r = subprocess.run(["/verif/check", prop, "--root", tmp, "--no-write", "--no-controls"], capture_output=True, text=True)
        lines = [l for l in r.stdout.splitlines() if not l.startswith("  rule")]
        print(f"== {prop} exit={r.returncode}")
        for l in lines[:12]:
            print("  ", l[:300])
        if r.returncode == 2:
            print(r.stderr[-800:])
finally:
    shutil.rmtree(tmp, ignore_errors=True)
