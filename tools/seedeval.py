#!/usr/bin/env python3
"""Confirm a sub-agent's seeded change and run the checks against it.

usage: seedeval.py <seed-id> <property> <worktree> [--alt]     (first-time intake from a sub-agent worktree)
       seedeval.py --rerun [<seed-id> ...]                       (re-run the checks against stored seeds)

Intake: takes `git diff` of the worktree (or alt.diff), confirms in a fresh scratch worktree of /repo that the test suite
still passes with it and that the demonstration fails with / passes without the change, then applies it to /repo, runs all
checks, and restores /repo (git checkout -- .).  Everything is recorded in /verif/seeded/<seed-id>/meta.json."""
import concurrent.futures, json, os, shutil, subprocess, sys

VERIF = "/verif"
PROPS = [f"C{i:02d}" for i in range(1, 19)]


def sh(cmd, cwd=None, env=None, timeout=900):
    e = dict(os.environ)
    if env:
        e.update(env)
    r = subprocess.run(cmd, shell=isinstance(cmd, str), cwd=cwd, env=e, capture_output=True, text=True, timeout=timeout)
    return r.returncode, r.stdout + r.stderr


def confirm(seed_dir, demo_name):
    scratch = f"/tmp/confirm_{os.path.basename(seed_dir)}"
    sh(f"git -C /repo worktree remove --force {scratch}")
    rc, out = sh(f"git -C /repo worktree add -q --detach {scratch} HEAD")
    if rc:
        return {"error": out}
    res = {}
    try:
        env = {"PYTHONPATH": scratch}
        shutil.copy(os.path.join(seed_dir, demo_name), os.path.join(scratch, demo_name))
        rc, out = sh(f"/venv/bin/python {demo_name}", cwd=scratch, env=env)
        res["demo_without_change"] = rc
        rc, out = sh(f"git apply {os.path.join(seed_dir, 'patch.diff')}", cwd=scratch)
        if rc:
            res["error"] = "patch does not apply: " + out[-300:]
            return res
        rc, out = sh(f"/venv/bin/python {demo_name}", cwd=scratch, env=env)
        res["demo_with_change"] = rc
        res["demo_output_tail"] = out[-600:]
        rc, out = sh("/venv/bin/python -m pytest -q -p no:cacheprovider -x --deselect tests/test_bic.py::test_pydantic_protocol --deselect tests/test_iban.py::test_pydantic_protocol",
                     cwd=scratch, env=env)
        res["tests_rc"] = rc
        res["tests_tail"] = out.strip().splitlines()[-1] if out.strip() else ""
    finally:
        sh(f"git -C /repo worktree remove --force {scratch}")
    return res


def run_checks(patch):
    rc, out = sh("git -C /repo status --porcelain")
    if out.strip():
        raise SystemExit("refusing: /repo is not clean: " + out)
    rc, out = sh(f"git -C /repo apply {patch}")
    if rc:
        raise SystemExit("patch does not apply to /repo: " + out)
    results = {}
    try:
        def one(p):
            rc, out = sh([os.path.join(VERIF, "check"), p, "--no-write", "--no-controls"], cwd=VERIF)
            lines = [l for l in out.splitlines() if "VIOLATION" in l or "ANALYSIS-ERROR" in l or " — " in l]
            return p, rc, lines[:6]
        with concurrent.futures.ThreadPoolExecutor(max_workers=12) as ex:
            for p, rc, lines in ex.map(one, PROPS):
                results[p] = {"exit": rc, "report": [l[:400] for l in lines]}
    finally:
        sh("git -C /repo checkout -- .")
        sh("git -C /repo clean -fdq schwifty")
    rc, out = sh("git -C /repo status --porcelain")
    if out.strip():
        raise SystemExit("/repo not clean after restore: " + out)
    return results


def summarise(meta):
    caught = [p for p, r in meta["checks"].items() if r["exit"] == 1]
    undec = [p for p, r in meta["checks"].items() if r["exit"] == 2]
    return caught, undec


def main():
    if sys.argv[1] == "--rerun":
        ids = sys.argv[2:] or sorted(os.listdir(os.path.join(VERIF, "seeded")))
        for sid in ids:
            d = os.path.join(VERIF, "seeded", sid)
            mp = os.path.join(d, "meta.json")
            if not os.path.exists(mp):
                continue
            meta = json.load(open(mp))
            meta["checks"] = run_checks(os.path.join(d, "patch.diff"))
            caught, undec = summarise(meta)
            meta["caught_by"] = caught
            meta["undecided"] = undec
            json.dump(meta, open(mp, "w"), indent=1)
            print(f"{sid}: property {meta['property']} caught_by={caught} undecided={undec}")
        return
    sid, prop, wt = sys.argv[1:4]
    alt = "--alt" in sys.argv
    k = sys.argv[sys.argv.index("--k") + 1] if "--k" in sys.argv else None
    d = os.path.join(VERIF, "seeded", sid)
    os.makedirs(d, exist_ok=True)
    if k:
        shutil.copy(os.path.join(wt, f"change_{k}.diff"), os.path.join(d, "patch.diff"))
        demo_src = f"demo_{k}.py"
    elif alt:
        shutil.copy(os.path.join(wt, "alt.diff"), os.path.join(d, "patch.diff"))
        demo_src = "demo_alt.py"
    else:
        rc, out = sh("git diff", cwd=wt)
        open(os.path.join(d, "patch.diff"), "w").write(out)
        demo_src = "demo_break.py"
    shutil.copy(os.path.join(wt, demo_src), os.path.join(d, "demo.py"))
    conf = confirm(d, "demo.py")
    ok = conf.get("demo_without_change") == 0 and conf.get("demo_with_change", 0) != 0 and conf.get("tests_rc") == 0
    meta = {"id": sid, "property": prop, "source": "independent sub-agent given only the property text and a scratch worktree",
            "confirmed": ok, "confirmation": conf,
            "ran": ["scratch worktree of /repo HEAD: demo without change, git apply patch.diff, demo with change, pytest (pydantic tests deselected)",
                    "git -C /repo apply patch.diff; ./check Cxx --no-write for all 18; git -C /repo checkout -- ."]}
    if ok:
        meta["checks"] = run_checks(os.path.join(d, "patch.diff"))
        caught, undec = summarise(meta)
        meta["caught_by"] = caught
        meta["undecided"] = undec
    json.dump(meta, open(os.path.join(d, "meta.json"), "w"), indent=1)
    print(json.dumps({k: meta.get(k) for k in ("id", "property", "confirmed", "caught_by", "undecided")}))
    if not ok:
        print("NOT CONFIRMED:", json.dumps(conf)[:800])


if __name__ == "__main__":
    main()
