#!/usr/bin/env python3
"""Regenerate MANIFEST.json from the table below (keeps the manifest valid and in one place)."""
import json, os
HERE = os.path.dirname(os.path.dirname(os.path.abspath(__file__)))
props = [json.loads(l) for l in open(os.path.join(HERE, "properties.jsonl"))]

CHECKS = {
 "C17": dict(
   technique="exhaustive data walk over the bundled JSON registries (own loader) + abstract evaluation of registered algorithms on undefined fields",
   text="Every clause of C17 is decided for every country (126) and every bank entry (29 451) of whatever data the tree bundles, on every run; "
        "no sampling. Static: the JSON files and the checksum package are read as data / source, the library is never imported.",
   note="Trusted: the checker's own registry loader (deep later-wins merge, v2 expansion) — C18's rules tie registry.py to it; ISO 3166 list from the installed pycountry database file; "
        "agreement with SWIFT / national sources is not decided.",
   design="3/C17"),
 "C07": dict(
   technique="MRO-resolved parameter extraction + finite-domain hook tables (abstract evaluation) compared with a Bundesbank reference table",
   text="For all 39 registered German methods (and the 4 variants of 91) the effective modulus, positions, direction, weights, the summand table (digit x weight), "
        "the remainder table and the remainder->check-digit mapping are computed from the source by the abstract evaluator and compared with an independently typed reference table; "
        "every value that can reach the comparison with an account digit is shown to be one decimal digit; writer/reader dispatch keys and the JSON field name agree. "
        "This covers the 21 methods without any test. It decides the parameters and hook tables, not the full behaviour of the special-case rules.",
   note="Trusted: sv/tables/bundesbank.py (typed from the Bundesbank descriptions), the abstract evaluator's library model. Special rules of 13/63, 24, 25, 68, 76 beyond parameters are not decided.",
   design="3/C07"),
 "C06": dict(
   technique="decorator evaluation (exhaustive registration table) + abstract evaluation per country + reference-implementation agreement on a position-covering probe family",
   text="The 22 countries' registrations are derived by evaluating every register() decorator; for each country the fields read, the width of the computed digits and the possible "
        "outcomes of the BBAN-level check (True / InvalidBBANChecksum only) are decided by abstract evaluation over all structure-conforming BBANs; the algorithms' results are compared with "
        "independent reference implementations on a probe family that varies every accepted position over its whole character class. "
        "Parameters (weights, moduli, letter maps, special results) are thereby pinned for all 22 countries, 17 of which have no test.",
   note="Trusted: sv/tables/national.py; the probe family is finite - a special case keyed on several positions at once is not decided (stated in evidence). R06-mono/R06-flag live in the validator analysis.",
   design="3/C06"),
 "C04": dict(
   technique="symbolic path enumeration of the validators + regular-language inclusion (DFA over a code-point partition) against the ISO 9362 language",
   text="All paths of BIC.__init__/validate/is_valid are enumerated for both compliance modes; the accepted language is compared with the ISO 9362 language in both directions for every "
        "valuation of the single opaque predicate (ISO 3166 lookup). The decision covers all Unicode strings of all lengths at once and yields a shortest counter-example as witness.",
   note="Trusted: re._parser's AST equals what the re engine executes; \\d/\\s categories via str.isdecimal/isspace; texts are clean()-normalised (C10); pycountry is an opaque predicate.",
   design="3/C04"),
}
NA_REASON = "check not built yet (work in progress; see DESIGN.md section 3 for the plan)"

m = {
 "version": 1,
 "setup_cmd": "/venv/bin/python -m compileall -q sv || python3 -m compileall -q sv",
 "hooks": {"guard": "SCHWIFTY_VERIF", "enable": "none: no hooks are compiled into /repo; every check reads the working tree as source text and data",
           "baseline_off_cmd": "cd /repo && /venv/bin/python -m pytest -ra -q -p no:cacheprovider --timeout=900 --continue-on-collection-errors",
           "source_commits": [], "add_only": True},
 "engines": [
   {"name": "srcmodel", "path": "sv/srcmodel.py", "serves_properties": sorted(CHECKS), "kind_free_text": "ast-based resolved program model: modules, imports, class table with C3 MRO, name resolution"},
   {"name": "interp", "path": "sv/interp.py", "serves_properties": sorted(CHECKS), "kind_free_text": "path-forking abstract evaluator (finite sets, intervals, positional abstract strings, symbolic strings) with a library model"},
   {"name": "relang", "path": "sv/relang.py", "serves_properties": sorted(CHECKS), "kind_free_text": "regex literal -> NFA -> DFA over a code-point partition; inclusion / equivalence with witnesses"},
   {"name": "datamodel", "path": "sv/datamodel.py", "serves_properties": sorted(CHECKS), "kind_free_text": "own loader of the bundled JSON registries"},
 ],
 "checks": [], "notes": "static analysis only; see DESIGN.md. exit 0 holds / 1 VIOLATION / 2 ANALYSIS-ERROR (cannot decide).",
 "not_applicable": [],
}
for p in props:
    pid = p["id"]
    c = CHECKS.get(pid)
    if c is None:
        m["not_applicable"].append({"property_id": pid, "reason": NA_REASON})
        continue
    m["checks"].append({
        "property_id": pid, "quick_cmd": f"./check {pid} --tier quick", "thorough_cmd": f"./check {pid} --tier thorough",
        "evidence_file": f"evidence/{pid}.json", "replay_cmd_template": f"./check {pid} --replay {{path}}", "engine": "sv",
        "level_claimed": {"category": "other", "text": c["text"], "design_ref": c["design"]},
        "level_note": c["note"], "technique": c["technique"]})
json.dump(m, open(os.path.join(HERE, "MANIFEST.json"), "w"), indent=1)
print("checks:", [c["property_id"] for c in m["checks"]], "n/a:", len(m["not_applicable"]))
