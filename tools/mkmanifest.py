#!/usr/bin/env python3
"""Regenerate MANIFEST.json from the table below (keeps the manifest valid and in one place)."""
import json, os
HERE = os.path.dirname(os.path.dirname(os.path.abspath(__file__)))
props = [json.loads(l) for l in open(os.path.join(HERE, "properties.jsonl"))]

CHECKS = {
 "C17": dict(
   technique="exhaustive data walk over the bundled JSON registries (own loader) + abstract evaluation of registered algorithms on undefined fields",
   text="Every clause of C17 is decided for every country (126) and every bank entry (29 451) of whatever data the tree bundles, on every run; "
        "no sampling (incl. R17-cover: the component ranges cover the BBAN, frozen exceptions TR / MU); every listed (country, bank code) is additionally looked up again through the tree's own BBAN.bank from an IBAN carrying it (R17-found; quick: one entry per country, every all-zero / all-nine code and a seeded sample of 1 500 keys, thorough: all 22 753 keys). Static: the JSON files and the checksum package are read as data / source, the library is never imported.",
   note="Trusted: the checker's own registry loader (deep later-wins merge, v2 expansion) — C18's rules tie registry.py to it; ISO 3166 list from the installed pycountry database file; "
        "agreement with SWIFT / national sources is not decided.",
   design="3/C17"),
 "C07": dict(
   technique="MRO-resolved parameter extraction + finite-domain hook tables (abstract evaluation) compared with a Bundesbank reference table",
   text="For all 39 registered German methods (and the 4 variants of 91) the effective modulus, positions, direction, weights, the summand table (digit x weight), "
        "the remainder table and the remainder->check-digit mapping are computed from the source by the abstract evaluator and compared with an independently typed reference table; "
        "every value that can reach the comparison with an account digit is shown to be one decimal digit. Bank entry -> method is decided by evaluation: BBAN.validate_national_checksum evaluated with a registry entry "
        "naming each registered method must consult exactly the class registered for it, and must accept without consulting anything for unlisted banks and unimplemented methods. Every method's full verdict (special rules included) is "
        "compared with a reference verdict function on a probe family covering every position x digit and the boundaries of the special rules (quick: ~450 accounts per method; thorough: every pair of positions x all digit values, ~12 000 accounts per method); method 91 is checked on accounts only one variant accepts. "
        "This covers the 21 methods without any test.",
   note="Trusted: sv/tables/bundesbank.py (typed from the Bundesbank descriptions), the abstract evaluator's library model. sv/tables/bundesbank_ref.py: the special rules of 08, 16, 23, 24, 25, 26, 61, 63, 68, 76, 88, 91, 99 are pinned to the reviewed behaviour after the repairs of DESIGN 8.3 (a later change is reported); outside the probe family their agreement is inferred.",
   design="3/C07"),
 "C06": dict(
   technique="decorator evaluation (exhaustive registration table) + abstract evaluation per country + reference-implementation agreement on a position-covering probe family",
   text="The 22 countries' registrations are derived by evaluating every register() decorator; for each country the fields read (and that the table places them where the algorithm is defined: pinned ranges), the width of the computed digits and the possible "
        "outcomes of the BBAN-level check (True / InvalidBBANChecksum only) are decided by abstract evaluation over all structure-conforming BBANs; the algorithms' results are compared with "
        "independent reference implementations on a probe family that varies every accepted position over its whole character class; concrete probe BBANs of both polarities go through BBAN.validate_national_checksum and must be accepted exactly when "
        "the reference says so; the generation-side reader (compute_national_checksum) is evaluated per country and must reach the registered algorithm; the flag's effect (national validation can only reject; without the flag nothing national is consulted) "
        "is decided in the validator model. "
        "Parameters (weights, moduli, letter maps, special results) are thereby pinned for all 22 countries, 17 of which have no test.",
   note="Trusted: sv/tables/national.py; the probe family is finite - quick: single positions, thorough: every pair of positions jointly; a special case keyed on three or more positions at once is not decided (stated in evidence). R06-mono/R06-flag live in the validator analysis.",
   design="3/C06"),
 "C04": dict(
   technique="symbolic path enumeration of the validators + regular-language inclusion (DFA over a code-point partition) against the ISO 9362 language",
   text="All paths of BIC.__init__/validate/is_valid are enumerated for both compliance modes; the accepted language is compared with the ISO 9362 language in both directions for every "
        "valuation of the single opaque predicate (ISO 3166 lookup). The decision covers all Unicode strings of all lengths at once and yields a shortest counter-example as witness.",
   note="Trusted: re._parser's AST equals what the re engine executes; \\d/\\s categories via str.isdecimal/isspace; texts are clean()-normalised (C10); pycountry is an opaque predicate.",
   design="3/C04"),
 "C01": dict(
   technique="symbolic path enumeration of IBAN validators (fork over all table keys) + regular-language equality per country and per valuation of the arithmetic conditions; constants of the opaque arithmetic terms evaluated",
   text="For each of the 126 countries and each feasible valuation of the opaque arithmetic conditions, the language of texts accepted by the constructor and by is_valid is proved equal (as automata over a code-point partition) "
        "to country code + two digits + the structure classes of the bundled table, or empty when a condition fails; the arithmetic conditions are shown to be N mod 97 == 1 over [4:]+[0:4] and "
        "digits == 98-(100 N mod 97) over [4:]+[0:2]; numerify is tabulated per character. All strings, all lengths, all countries at once.",
   note="Trusted: re._parser, str.isdecimal/isspace, CPython integer arithmetic; the MOD 97-10 identity itself is a paper argument; table vs SWIFT registry not decided.",
   design="3/C01"),
 "C02": dict(
   technique="evaluation of the extracted check-digit term over all residues + language equality per valuation + symbolic evaluation of from_bban",
   text="The recomputed-digits term of the validator and the digits term of from_bban are extracted symbolically and evaluated for every residue: both equal 98-(100 N mod 97) formatted to two digits (range 02..98); "
        "acceptance requires the recomputed digits to equal characters 3-4 for every country (aliases 00/01/99 rejected: the valuation 'remainder ok, recompute differs' has an empty accept language); from_bban assembles country+digits+BBAN over the same input.",
   note="Uniqueness is decided as 'at most one, namely the computed pair'; that the computed pair also leaves remainder 1 is the ISO 7064 identity (paper).",
   design="3/C02"),
 "C03": dict(
   technique="premises of the mod-97 detection lemma decided on the source (guards on every accepting path, numerify table, permutation of indices) + the lemma evaluated on extracted constants and table data",
   text="P1 every accepting path passes a mod-97 condition; P2/P3 numerify is decimal concatenation of 0..9/10..35 in order over a rearrangement covering each index once; P4 the extracted modulus is prime, exceeds every same-kind delta, "
        "ord(10) exceeds the longest expanded number of the table, 10^w-1 is non-zero; P5 kind-changing substitutions are rejected by the class check (language inclusion).",
   note="The conclusion is the stated lemma, not derived by the checker.",
   design="3/C03"),
 "C05": dict(
   technique="exception-escape analysis by exhaustive symbolic path enumeration with per-character-class summaries of helper functions; language comparison of the three entry points; defect-language check per raised class",
   text="Every path of IBAN/BIC __init__, validate, is_valid (all flags) is enumerated with its regular language; any path ending in a non-library exception is reported with a shortest witness (this found the non-ASCII-digit ValueError). "
        "is_valid returns a bool on every path; constructor, validate and is_valid accept the same language under every valuation; each raised class is checked against the language of texts that have that defect; "
        "the BBAN-level national check is additionally evaluated for every country of the table on all structure-conforming field values (abstract strings) and may only return or raise library errors.",
   note="National algorithms under validate_bban are opaque here and decided per country in C06. Message texts are not checked.",
   design="3/C05"),
 "C16": dict(
   technique="protocol conformance on the class table (method sets, __new__ arity vs modelled copy/pickle protocol) + evaluation of the comparison methods and of __deepcopy__ through the abstract evaluator",
   text="__eq__/__hash__/__lt__ are shown to be defined together and to equal the compact strings' comparison on a family of concrete pairs for all three classes; every __new__'s arity is checked against what "
        "object.__reduce_ex__/str.__getnewargs__ supply (found BBAN); __deepcopy__ is evaluated symbolically for each class on objects built with validation off (found the re-validation and the BBAN arity error) and must restore class, text and attributes; copy.copy / copy.deepcopy / pickle round trips are evaluated through the modelled __reduce_ex__ protocol for all three classes.",
   note="The copy/pickle protocol is modelled, not executed. Comparison with foreign types follows str (library model).",
   design="3/C16"),
 "C10": dict(
   technique="symbolic evaluation of clean() and of every constructor + regular-language check of the whitespace pattern over all code points + evaluation of formatted on tagged strings of every length",
   text="clean(raw) is shown to be upper(remove(pattern, raw)) with a pattern that matches every one of the str.isspace code points singly and no text containing a non-whitespace character; IBAN, BIC and BBAN objects are shown to carry exactly clean(raw) "
        "and never to read the raw parameter again; formatted is evaluated for every length 0..40 (IBAN) and 8/11 (BIC) on tagged strings and equals groups of four / the parts joined by one space.",
   note="Trusted: str.upper creates neither whitespace nor ASCII lower case; formatted is parametric in the characters.",
   design="3/C10"),
 "C11": dict(
   technique="evaluation of every accessor on tagged texts (each position a distinct character) for every length and every country, compared with the published ranges of the table; symbolic evaluation of from_bban",
   text="For all 126 countries and all 8 components, IBAN.<component> and IBAN.bban.<component> return exactly the published range (or '' when unpublished); country code + check digits + BBAN tile every text of length 4..40 and the BIC parts tile lengths 8 and 11; "
        "the component enumeration equals the keys the table uses; from_bban re-assembles in the order the accessors slice.",
   note="Accessors only slice, so one tagged text per length / country decides all texts; agreement of positions with SWIFT is not decided.",
   design="3/C11"),
 "C18": dict(
   technique="translation validation of registry.py against the stated composition: abstract evaluation over a virtual file system on a bounded-exhaustive document space, adversarial listing order",
   text="merge_dicts is evaluated on all 10 000 pairs of a document space with scalar/dict/nested/list/null conflicts (plus deeper sampled pairs) and must equal the deep later-wins merge and leave operands untouched; "
        "get() is evaluated on virtual directories of three dict files and of list files with a v2 file, with glob returning names in non-sorted orders and with name sets whose order differs by stem, by case and by code point; build_index on empty and partially empty keys; all readers go through registry.get; the tree's get('iban') / get('bank') evaluated on the real bundled files must equal the data model every other check reads the data through (R18-real).",
   note="Trusted: datamodel.py's deep_merge/expand_v2 as the statement of C18. Outside the bounded shape space the result is inferred.",
   design="3/C18"),
 "C14": dict(
   technique="effect analysis over an AST call graph with import-time / run-time phase classification (who-may-write rule) + interprocedural taint of registry data",
   text="A sufficient condition for all interleavings is decided: no function reachable at run time from the public API stores to a module global, mutates a module-level container, "
        "stores to self.<attr> of a class whose instances live in the process-wide algorithm table, or mutates data handed out by registry.get; registry.get writes only on a miss and every run-time call site passes a literal name loaded at import. "
        "When the rule holds every call is a function of its arguments and frozen data, so threads cannot influence each other. It found the shared remainder of the German methods. Objects created once at class / module level (class attributes holding lists / dicts / iterators, mutable default arguments) are tracked by identity through the abstract evaluation of every registered algorithm: a run-time write into one is reported (R14-objects).",
   note="Assumes imports complete before threads start, pycountry's lazy load is locked, re / rstr are GIL-safe. Lock- or thread-local-based designs would need a different rule (the check would report them).",
   design="3/C14"),
 "C15": dict(
   technique="effect analysis (as C14) + definite-assignment of shared scratch state by abstract evaluation with load tracking + decorator / attribute-store scans",
   text="No run-time-reachable write to module state, registry data or caller-bound arguments; every registered algorithm (61) is evaluated abstractly with load tracking and never reads an instance attribute the current call has not written; "
        "no memoisation decorator anywhere; IBAN/BIC/BBAN store attributes only during construction; registry writers are only called at module level.",
   note="Library model: pycountry, re are history-independent.",
   design="3/C15"),
 "C12": dict(
   technique="evaluation of the lookup functions by the abstract evaluator against registry models (synthetic branch-covering registry + bundled data) compared with the statement; writer/reader agreement of index names and key order on the call sites",
   text="candidates_from_bank_code, from_bank_code, the reverse lookups and the IBAN-level bic/bank/name accessors are evaluated on a synthetic registry that exercises every branch of the selection rule and on the bundled registry "
        "(quick: all kinds of keys via a seeded sample of about 1 950 keys incl. 600 multi-candidate ones and 600 BICs, evaluated in forked workers; thorough: all 22 753 keys and 7 769 BICs) and must equal the registry's own lists, the selection rule, invertibility and the None case; falsy keys ('0', '00', '') and keys of other countries are included.",
   note="Indexes are built by the checker's builder from the tree's build_index call arguments (build_index itself is validated in C18). Registry contents beyond the two models are covered through branch coverage only.",
   design="3/C12"),
 "C08": dict(
   technique="evaluation of from_components / generate by the abstract evaluator per country on position-revealing component values + exception-escape analysis on arbitrary component texts (abstract strings over the whole clean universe)",
   text="For each of the 119 countries with positions: full-width, shorter, combined bank+branch and spaced/lower-case components must land, cleaned and zero-padded, exactly at the published ranges (zeros elsewhere, computed check digits aside); "
        "over-long components must raise the component's own error class; with every component replaced by an arbitrary text (any characters, incl. non-ASCII) every path of IBAN.generate must end in a value or a library exception "
        "(this found six sites raising bare ValueError/KeyError); generate goes through from_bban with validation on.",
   note="Placement is decided on position-revealing patterns per variant, not on all strings; exceptions are decided for all characters.",
   design="3/C08"),
 "C09": dict(
   technique="evaluation of compute/validate agreement on a position-covering probe family + build/read-back/rebuild evaluation per country through the abstract evaluator + must-pass-through check of BBAN.random by evaluation (every returned object was produced by from_components, per country, both registry modes)",
   text="For the 19 computing countries validate(fields, compute(fields)) holds and any other digit value is rejected on every probe; for all 119 countries with positions a BBAN built by from_components, read back through the accessors and rebuilt is reproduced exactly with zero filler, and passes the BBAN-level national check; whatever BBAN.random returns was produced by from_components (evaluation with a recording wrapper, 19 countries x registry on/off).",
   note="Probe family: every accepted position varied over its class from a base vector plus seeded random fills; not all field values.",
   design="3/C09"),
 "C13": dict(
   technique="non-determinism source scan over the call graph reachable from the random entry points (scope-aware) + abstract evaluation of BBAN.random per country with modelled Random / Rstr, pinned components checked on every returned value + generator discipline and validity decided by evaluation with a marked generator and a recording IBAN constructor",
   text="Every function reachable from IBAN.random/BBAN.random and the loaders that order their data are scanned for unseeded Random, module-level random functions, Rstr without the caller's generator, hash/id/time/urandom, set iteration, unsorted listings; "
        "country patterns are checked to stay inside what rstr expands through the generator; BBAN.random is evaluated abstractly for 119 countries x {bank, branch, account} x {registry, no registry} x {exact, short, leading zeros, too long}: "
        "each returned BBAN must conform to the country's structure at every position and carry the pinned value at its published range; pins of the wrong character class and non-ASCII digits must never be returned (found the PL/SI override, the silent truncation and the non-conforming BBANs handed out for wrong-class pins); every draw on every explored path of BBAN.random / IBAN.random uses the caller's generator (marked generator; the spelling of the None fallback is irrelevant); whatever IBAN.random returns was built by the IBAN constructor with validation on; "
        "a registry-based draw belongs to the drawn bank (R13-registry); an un-sorted() directory listing is reported only when evaluation on a virtual directory shows the result depends on listing order.",
   note="Retry loops are evaluated for two iterations; random.choice over large lists is represented by one entry per (bank-code length, has-BIC) class; 'for every seed a valid result' is decided as must-pass-through validation.",
   design="3/C13"),
}
# Round 5 additions, appended to the level text / technique of the checks they belong to.
PREMISE = (" A call-graph premise (Rxx-P1-stateless) is decided first: nothing this property's entry points reach is memoised (functools caches keyed on a value object are keyed on its "
           "text alone) , writes module-level / default-argument state or mutates registry data - the per-call analysis generalises to every call only then.")
EXTRA_TEXT = {
 "C01": PREMISE + " The constructor may not raise on a condition over the text as typed, before normalisation. A string function that hands out the remainder itself (never building the number) is recognised by evaluation on concrete texts and verified against decimal concatenation for every IBAN length.",
 "C02": PREMISE + " from_bban is also evaluated with each of the 126 country codes as a concrete text (per-country shortcuts such as digits taken from the table are findings).",
 "C03": PREMISE + " The expansion function is verified on all-letter texts of every length up to 34 characters (68 digits).",
 "C04": PREMISE, "C05": PREMISE, "C06": PREMISE, "C07": PREMISE,
 "C08": PREMISE + " Over-long components are also probed made of letters and of punctuation: the component's own error class must answer before any national algorithm sees the text.",
 "C09": PREMISE + " R09-converse: a structure-conforming, nationally valid BBAN that was not built by the library is read into all its components and rebuilt, and must come back exactly (filler positions zero); "
        "a country code spelled in lower case must give a library error or a nationally valid BBAN.",
 "C10": " The constructors may not raise on a condition over the raw text (R10-norm raw-condition).",
 "C11": PREMISE + " R11-disjoint: no BBAN position is returned by two component accessors (126 countries).",
 "C12": PREMISE + " Registry entries whose BIC or bank code is not in compact canonical form are always among the keys evaluated in the quick tier.",
 "C13": PREMISE + " One representative registry entry per shape of bank code (length and per-character kind) is drawn.",
 "C14": " R14-module-objects: a class one instance of which is created at module level may not store attributes outside its constructor (decided on the syntax tree, also when the class cannot be evaluated).",
 "C17": " R17-algo decides 'reads only fields the country defines' by behaviour: an undefined field is inert iff the algorithm's outcomes are unchanged with its '' entry left out.",
}
EXTRA_TECH = {k: " + call-graph reachability premise (no memoisation / module state behind the property's entry points)" for k in ("C01", "C02", "C03", "C04", "C05", "C06", "C07", "C08", "C09", "C11", "C12", "C13")}
NA_REASON = "check not built yet (work in progress; see DESIGN.md section 3 for the plan)"

m = {
 "version": 1,
 "setup_cmd": "/venv/bin/python -m compileall -q sv || python3 -m compileall -q sv",
 "hooks": {"guard": "SCHWIFTY_VERIF", "enable": "none: no hooks are compiled into /repo; every check reads the working tree as source text and data",
           "baseline_off_cmd": "cd /repo && /venv/bin/python -m pytest -ra -q -p no:cacheprovider --timeout=900 --continue-on-collection-errors",
           "source_commits": [], "add_only": True},
 "engines": [
   {"name": "srcmodel", "path": "sv/srcmodel.py", "serves_properties": sorted(CHECKS), "kind_free_text": "ast-based resolved program model: modules, imports, class table with C3 MRO, name resolution"},
   {"name": "interp", "path": "sv/interp.py", "serves_properties": sorted(CHECKS), "kind_free_text": "path-forking abstract evaluator (finite sets, intervals, positional abstract strings, symbolic strings) with a library model"},
   {"name": "relang", "path": "sv/relang.py", "serves_properties": sorted(CHECKS), "kind_free_text": "regex literal -> NFA -> DFA over a code-point partition; inclusion / equivalence with witnesses"},
   {"name": "datamodel", "path": "sv/datamodel.py", "serves_properties": sorted(CHECKS), "kind_free_text": "own loader of the bundled JSON registries"},
 ],
 "checks": [], "notes": "static analysis only; see DESIGN.md. exit 0 holds / 1 VIOLATION / 2 ANALYSIS-ERROR (cannot decide).",
 "not_applicable": [],
}
for p in props:
    pid = p["id"]
    c = CHECKS.get(pid)
    if c is None:
        m["not_applicable"].append({"property_id": pid, "reason": NA_REASON})
        continue
    m["checks"].append({
        "property_id": pid, "quick_cmd": f"./check {pid} --tier quick", "thorough_cmd": f"./check {pid} --tier thorough",
        "evidence_file": f"evidence/{pid}.json", "replay_cmd_template": f"./check {pid} --replay {{path}}", "engine": "sv",
        "level_claimed": {"category": "other", "text": c["text"] + EXTRA_TEXT.get(pid, ""), "design_ref": c["design"]},
        "level_note": c["note"], "technique": c["technique"] + EXTRA_TECH.get(pid, "")})
json.dump(m, open(os.path.join(HERE, "MANIFEST.json"), "w"), indent=1)
print("checks:", [c["property_id"] for c in m["checks"]], "n/a:", len(m["not_applicable"]))
