#!/usr/bin/env python3
"""Parallel re-run of all stored seeds against the checks, each on its own scratch copy (checks take --root).
Equivalent to applying the patch to /repo (the checks only read <root>/schwifty); used for bulk regression runs.
usage: seedrerun_par.py [-j N] [ids...]"""
import concurrent.futures, json, os, shutil, subprocess, sys, tempfile

VERIF = "/verif"
PROPS = [f"C{i:02d}" for i in range(1, 19)]


def run_seed(sid):
    d = os.path.join(VERIF, "seeded", sid)
    mp = os.path.join(d, "meta.json")
    meta = json.load(open(mp))
    tmp = tempfile.mkdtemp(prefix="seedrun_")
    try:
        shutil.copytree("/repo/schwifty", os.path.join(tmp, "schwifty"))
        r = subprocess.run(["git", "apply", os.path.join(d, "patch.diff")], cwd=tmp, capture_output=True, text=True)
        if r.returncode:
            return sid, meta["property"], None, "patch does not apply: " + r.stderr[-200:]
        results = {}
        props = PROPS
        if os.environ.get("SEED_MODE") == "focus" and meta.get("checks"):
            # re-run the check of the seed's own property and every check that reported or could not decide last time; keep the other records
            results = dict(meta["checks"])
            props = sorted({meta["property"]} | {p for p, x in meta["checks"].items() if x["exit"] != 0})
        for p in props:
            r = subprocess.run([os.path.join(VERIF, "check"), p, "--root", tmp, "--no-write", "--no-controls"], capture_output=True, text=True, cwd=VERIF, env=dict(os.environ, SV_TIME_LIMIT=os.environ.get("SV_TIME_LIMIT", "600")))
            out = r.stdout
            lines = [l for l in out.splitlines() if "VIOLATION" in l or "ANALYSIS-ERROR" in l or " — " in l]
            results[p] = {"exit": r.returncode, "report": [l[:400].replace(tmp + "/", "") for l in lines[:6]]}
        meta["checks"] = results
        meta["caught_by"] = [p for p, x in results.items() if x["exit"] == 1]
        meta["undecided"] = [p for p, x in results.items() if x["exit"] == 2]
        json.dump(meta, open(mp, "w"), indent=1)
        return sid, meta["property"], meta["caught_by"], meta["undecided"]
    finally:
        shutil.rmtree(tmp, ignore_errors=True)


def main():
    args = sys.argv[1:]
    j = 14
    if args and args[0] == "-j":
        j = int(args[1]); args = args[2:]
    ids = args or sorted(x for x in os.listdir(os.path.join(VERIF, "seeded")) if os.path.exists(os.path.join(VERIF, "seeded", x, "meta.json")))
    missed = 0
    with concurrent.futures.ThreadPoolExecutor(max_workers=j) as ex:
        for sid, prop, caught, undec in ex.map(run_seed, ids):
            flag = "" if caught else "   <-- NOT CAUGHT"
            if not caught:
                missed += 1
            print(f"{sid:48} {prop} caught_by={caught} undecided={undec}{flag}", flush=True)
    print(f"{len(ids)} seeds, {missed} not caught")


if __name__ == "__main__":
    main()
