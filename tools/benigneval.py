#!/usr/bin/env python3
"""Run all checks against behaviour-preserving refactorings (benign/<id>/patch.diff): every check must stay silent
(exit 0); exit 2 (cannot decide) is recorded; exit 1 is a false alarm of the machinery.
usage: benigneval.py --intake <worktree> <group>   (copies refactor_*.diff)   |   benigneval.py [ids...]"""
import concurrent.futures, glob, json, os, shutil, subprocess, sys, tempfile

VERIF = "/verif"
PROPS = os.environ.get("BENIGN_PROPS", "").split() or [f"C{i:02d}" for i in range(1, 19)]


def run_one(bid):
    d = os.path.join(VERIF, "benign", bid)
    tmp = tempfile.mkdtemp(prefix="benign_")
    try:
        subprocess.run(["git", "-C", "/repo", "worktree", "add", "-q", "--detach", os.path.join(tmp, "wt"), "HEAD"], check=True, capture_output=True)
        wt = os.path.join(tmp, "wt")
        r = subprocess.run(["git", "apply", os.path.join(d, "patch.diff")], cwd=wt, capture_output=True, text=True)
        if r.returncode:
            # the tree has moved on since the refactoring was written (later fix: commits): three-way merge on the recorded blobs
            r = subprocess.run(["git", "apply", "-3", os.path.join(d, "patch.diff")], cwd=wt, capture_output=True, text=True)
        if r.returncode:
            return bid, None, "patch does not apply: " + r.stderr[-200:]
        t = subprocess.run(["/venv/bin/python", "-m", "pytest", "-q", "-p", "no:cacheprovider", "-x", "--deselect", "tests/test_bic.py::test_pydantic_protocol",
                            "--deselect", "tests/test_iban.py::test_pydantic_protocol"], cwd=wt, env=dict(os.environ, PYTHONPATH=wt), capture_output=True, text=True)
        results = {}
        for p in PROPS:
            try:
                r = subprocess.run([os.path.join(VERIF, "check"), p, "--root", wt, "--no-write", "--no-controls"], capture_output=True, text=True, cwd=VERIF, timeout=900, env=dict(os.environ, SV_TIME_LIMIT=os.environ.get("SV_TIME_LIMIT", "600")))
            except subprocess.TimeoutExpired:
                results[p] = {"exit": 2, "report": ["no verdict within 900 s (recorded as undecided)"]}
                continue
            lines = [l for l in r.stdout.splitlines() if "VIOLATION" in l or "ANALYSIS-ERROR" in l or " — " in l]
            results[p] = {"exit": r.returncode, "report": [l[:500].replace(wt + "/", "") for l in lines[:4]]}
        meta = {"id": bid, "tests_rc": t.returncode, "checks": results,
                "alarms": [p for p, x in results.items() if x["exit"] == 1], "undecided": [p for p, x in results.items() if x["exit"] == 2]}
        json.dump(meta, open(os.path.join(d, "meta.json" if len(PROPS) == 18 else "meta_partial.json"), "w"), indent=1)
        return bid, meta["alarms"], meta["undecided"]
    finally:
        subprocess.run(["git", "-C", "/repo", "worktree", "remove", "--force", os.path.join(tmp, "wt")], capture_output=True)
        shutil.rmtree(tmp, ignore_errors=True)


def main():
    args = sys.argv[1:]
    if args and args[0] == "--intake":
        wt, g = args[1], args[2]
        ids = []
        for f in sorted(glob.glob(os.path.join(wt, "refactor_*.diff"))):
            k = os.path.basename(f)[len("refactor_"):-len(".diff")]
            bid = f"g{g}-{k}"
            d = os.path.join(VERIF, "benign", bid)
            os.makedirs(d, exist_ok=True)
            shutil.copy(f, os.path.join(d, "patch.diff"))
            ids.append(bid)
        args = ids
    ids = args or sorted(os.listdir(os.path.join(VERIF, "benign")))
    with concurrent.futures.ThreadPoolExecutor(max_workers=int(os.environ.get('BENIGN_J', '6'))) as ex:
        for bid, alarms, undec in ex.map(run_one, ids):
            print(f"{bid:12} alarms={alarms} undecided={undec}", flush=True)


if __name__ == "__main__":
    main()
