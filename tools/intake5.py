#!/usr/bin/env python3
"""Round-5 intake of one sub-agent worktree: tools/intake5.py <worktree> <prop-for-k1,2> <prop-for-k3,4> [-j N]

For every change_k.diff / demo_k.py / needs_k.txt in the worktree: confirm in a fresh scratch worktree of /repo (demo passes
without, fails with the change; unedited suite passes with it), then run all 18 checks against a scratch copy with the change
applied (`--root`; the checks read only <root>/schwifty, so this is the same as applying it to /repo and undoing it) and
store patch.diff, demo.py and meta.json (property, what it needs to manifest, what was run, per-check outcome) under seeded/."""
import concurrent.futures, json, os, shutil, subprocess, sys, tempfile
sys.path.insert(0, os.path.dirname(__file__))
import seedeval

VERIF = "/verif"
PROPS = seedeval.PROPS


def checks_on_copy(patch):
    tmp = tempfile.mkdtemp(prefix="seedrun_")
    try:
        shutil.copytree("/repo/schwifty", os.path.join(tmp, "schwifty"))
        r = subprocess.run(["git", "apply", patch], cwd=tmp, capture_output=True, text=True)
        if r.returncode:
            raise SystemExit("patch does not apply to a copy of /repo: " + r.stderr)

        def one(p):
            r = subprocess.run([os.path.join(VERIF, "check"), p, "--root", tmp, "--no-write", "--no-controls"], capture_output=True, text=True,
                               cwd=VERIF, env=dict(os.environ, SV_TIME_LIMIT=os.environ.get("SV_TIME_LIMIT", "600"), SV_JOBS=os.environ.get("SV_JOBS", "2")))
            lines = [l for l in r.stdout.splitlines() if "VIOLATION" in l or "ANALYSIS-ERROR" in l or " — " in l]
            return p, {"exit": r.returncode, "report": [l[:400].replace(tmp + "/", "") for l in lines[:6]]}
        with concurrent.futures.ThreadPoolExecutor(max_workers=6) as ex:
            return dict(ex.map(one, PROPS))
    finally:
        shutil.rmtree(tmp, ignore_errors=True)


def intake(wt, prop, k, tag):
    sid = f"{prop}-r5-{tag}{k}"
    d = os.path.join(VERIF, "seeded", sid)
    os.makedirs(d, exist_ok=True)
    shutil.copy(os.path.join(wt, f"change_{k}.diff"), os.path.join(d, "patch.diff"))
    shutil.copy(os.path.join(wt, f"demo_{k}.py"), os.path.join(d, "demo.py"))
    needs = ""
    if os.path.exists(os.path.join(wt, f"needs_{k}.txt")):
        needs = open(os.path.join(wt, f"needs_{k}.txt")).read().strip()
    conf = seedeval.confirm(d, "demo.py")
    ok = conf.get("demo_without_change") == 0 and conf.get("demo_with_change", 0) != 0 and conf.get("tests_rc") == 0
    meta = {"id": sid, "property": prop, "needs_to_manifest": needs,
            "source": "independent sub-agent (round 5) given only the property text and a scratch worktree; asked for breakage that needs something specific to manifest",
            "confirmed": ok, "confirmation": conf,
            "ran": ["scratch worktree of /repo HEAD: demo without change, git apply patch.diff, demo with change, pytest (pydantic tests deselected)",
                    "copy of /repo/schwifty with patch.diff applied; ./check Cxx --root <copy> --no-write --no-controls for all 18; copy removed"]}
    if ok:
        meta["checks"] = checks_on_copy(os.path.join(d, "patch.diff"))
        meta["caught_by"], meta["undecided"] = seedeval.summarise(meta)
    json.dump(meta, open(os.path.join(d, "meta.json"), "w"), indent=1)
    line = json.dumps({x: meta.get(x) for x in ("id", "confirmed", "caught_by", "undecided")})
    if not ok:
        line += "  NOT CONFIRMED: " + json.dumps(conf)[:600]
    return line


def main():
    wt, p1, p2 = sys.argv[1:4]
    tag = os.path.basename(wt.rstrip("/")).split("_")[-1].lower()
    jobs = [(wt, p1 if k <= 2 else p2, k, tag) for k in (1, 2, 3, 4) if os.path.exists(os.path.join(wt, f"change_{k}.diff"))]
    with concurrent.futures.ThreadPoolExecutor(max_workers=4) as ex:
        for line in ex.map(lambda a: intake(*a), jobs):
            print(line, flush=True)


if __name__ == "__main__":
    main()
